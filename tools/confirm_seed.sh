#!/bin/bash
# confirm_seed.sh <id> <patch.diff> <demo_test.go> [base-ref]
# Confirms in a fresh scratch worktree of /repo: demo passes on base, patch applies, builds,
# existing suite passes, demo fails with the patch.  Prints a JSON summary line.
set -u
export GOFLAGS=-mod=mod GOPROXY=off GOSUMDB=off GOTOOLCHAIN=local
id=$1; patch=$(realpath $2); demo=$(realpath $3); ref=${4:-HEAD}
wt=$(mktemp -d /tmp/confirm_${id}_XXXX); rmdir $wt
git -C /repo worktree add --detach $wt $ref >/dev/null 2>&1 || { echo "worktree failed"; exit 2; }
trap 'git -C /repo worktree remove --force $wt >/dev/null 2>&1' EXIT
tname=$(grep -o 'func TestSeed[A-Za-z0-9_]*' $demo | head -1 | sed 's/func //')
cp $demo $wt/pmtiles/$(basename $demo)
cd $wt
base_demo=fail; go test -vet=off -count=1 -run "^${tname}\$" ./pmtiles/ >/tmp/confirm_$id.base.log 2>&1 && base_demo=pass
applies=no; git apply $patch 2>/tmp/confirm_$id.apply.log && applies=yes
builds=no; go build ./... >/tmp/confirm_$id.build.log 2>&1 && builds=yes
suite=fail; go test -vet=off -count=1 -skip "^${tname}\$" ./... >/tmp/confirm_$id.suite.log 2>&1 && suite=pass
mut_demo=pass; go test -vet=off -count=1 -run "^${tname}\$" ./pmtiles/ >/tmp/confirm_$id.mut.log 2>&1 || mut_demo=fail
echo "{\"id\":\"$id\",\"test\":\"$tname\",\"base_demo\":\"$base_demo\",\"applies\":\"$applies\",\"builds\":\"$builds\",\"suite\":\"$suite\",\"mutant_demo\":\"$mut_demo\",\"base\":\"$(git -C /repo rev-parse --short $ref)\"}"
