#!/usr/bin/env python3
"""Write seeded/<id>/meta.json from tools/seed_meta_src.json, known_findings.json (fix reverts),
the round-2 READMEs, and seeded/results.json (what was run, and the outcome)."""
import json, os, subprocess, glob
V = "/verif"
src = json.load(open(os.path.join(V, "tools/seed_meta_src.json")))
res = json.load(open(os.path.join(V, "seeded/results.json"))) if os.path.exists(os.path.join(V, "seeded/results.json")) else {}
kf = {f["id"]: f for f in json.load(open(os.path.join(V, "known_findings.json")))["findings"]}
head = subprocess.run(["git", "-C", "/repo", "rev-parse", "--short", "HEAD"], capture_output=True, text=True).stdout.strip()
for d in sorted(glob.glob(os.path.join(V, "seeded/*/"))):
    s = os.path.basename(d.rstrip("/"))
    r = res.get(s, {})
    m = {"id": s, "property": r.get("property"), "base_commit": head}
    files = sorted(os.listdir(d))
    m["files"] = [f for f in files if f != "meta.json"]
    if s.endswith("-revert"):
        k = s[:-len("-revert")]
        f = kf.get(k) or kf.get(k.replace("evict", "").replace("hang", "")) or {}
        m["origin"] = "reverts our own fix %s (commit %s) to re-create the defect on the current tree" % (k, f.get("commit", "?"))
        m["summary"] = f.get("what", "")
        m["needs"] = f.get("witness", "")
    elif "-cli-" in s:
        m["origin"] = "written by the builder (not a sub-agent) when the command-line tie was added: one-token changes in main.go's option handling"
        m.update(src[s])
    elif s in src:
        m["origin"] = "round 1: fresh sub-agent given only the property text and a scratch worktree"
        m.update(src[s])
        if "patch.orig.diff" in files:
            m["rebased"] = "patch.diff is the author's change re-applied onto the tree with our fixes (same edit, shifted context); patch.orig.diff is the original"
    else:
        import re as _re
        rn = _re.search(r"-r(\d)-", s)
        rn = rn.group(1) if rn else "2"
        what = {"2": "three changes per property", "3": "four per property: numeric boundary, rare valid input shape, error/fault/history path, concurrency/order/state or caller",
                "4": "four per property: glue/caller (main.go, shared helpers, bucket and URL handling), looks-like-an-optimisation, check weakened/moved/error swallowed, left-behind state",
                "6": "three per property for ten properties, all three required to be subtle"}.get(rn, "")
        m["origin"] = "round %s: fresh sub-agent given only the property text and a scratch worktree (%s)" % (rn, what)
        rd = os.path.join(d, "README.md")
        if os.path.exists(rd):
            m["summary"] = open(rd).read()[:1500]
        if os.path.exists(os.path.join(d, "note.txt")):
            m["note"] = open(os.path.join(d, "note.txt")).read().strip()
    demo = [f for f in files if f.endswith("_test.go")]
    m["demonstration"] = demo[0] if demo else None
    if r:
        m["ran"] = ["git -C /repo apply seeded/%s/patch.diff" % s, "./check %s %s" % (r.get("property"), r.get("tier", "quick")), "git -C /repo checkout -- ."]
        m["outcome"] = {k: r.get(k) for k in ("applies", "caught", "exit", "violations", "with_witness", "seconds", "last")}
    json.dump(m, open(os.path.join(d, "meta.json"), "w"), indent=1, ensure_ascii=False)
print("meta.json written for", len(glob.glob(os.path.join(V, "seeded/*/meta.json"))), "seeds")
