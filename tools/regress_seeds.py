#!/usr/bin/env python3
"""Apply every seeded change to /repo in turn, run the property's check, undo, and record the outcome
in seeded/results.json (used to fill each seed's meta.json and the DESIGN.md table)."""
import json, os, subprocess, sys, time
V = "/verif"
os.environ["VERIF_EVIDENCE_DIR"] = "/tmp/verif_seed_evidence"
PROP = {"D1-revert": "C17", "D12-revert": "C10", "D17-revert": "C14", "D2-revert": "C14", "D3evict-revert": "C10",
        "D3hang-revert": "C10", "D4-revert": "C11", "D5-revert": "C13", "D6-revert": "C15", "D7-revert": "C18",
        "D8a-revert": "C19", "D9-revert": "C07", "D19-revert": "C20", "D10-revert": "C20", "D20-revert": "C20",
        "D21-revert": "C20", "D22-revert": "C20", "D23-revert": "C12", "D24-revert": "C06", "D25-revert": "C15", "D26-revert": "C16"}
# changes filed by their author under one property but made in code another property's check observes
# (a consumer of the anchored code): the check that sees that code is the one run against them
CROSS = {"C01-r3-2": "C11", "C01-r3-3": "C08", "C01-r3-4": "C07", "C04-r3-3": "C08",
         "C01-r4-1": "C11", "C01-r4-2": "C16", "C01-r4-3": "C04", "C03-r4-1": "C13", "C04-r4-4": "C08",
         "C05-r4-4": "C13", "C08-r4-2": "C18", "C15-r4-4": "C13",
         "C08-r7-2": "C18", "C01-r7-2": "C07"}
tier = sys.argv[1] if len(sys.argv) > 1 else "quick"
only = sys.argv[2:]
res = {}
rp = os.path.join(V, "seeded", "results.json")
if os.path.exists(rp):
    res = json.load(open(rp))
for s in sorted(os.listdir(os.path.join(V, "seeded"))):
    d = os.path.join(V, "seeded", s)
    if not os.path.isdir(d) or (only and s not in only):
        continue
    prop = PROP.get(s, s.split("-")[0] if s.startswith("C") else None)
    prop = CROSS.get(s, prop)
    if prop is None:
        continue
    patch = os.path.join(d, "patch.diff")
    a = subprocess.run(["git", "-C", "/repo", "apply", patch], capture_output=True, text=True)
    if a.returncode != 0:
        res[s] = {"property": prop, "applies": False, "err": a.stderr[:200]}
        print(s, "DOES NOT APPLY")
        continue
    t0 = time.time()
    r = subprocess.run([os.path.join(V, "check"), prop, tier], capture_output=True, text=True)
    subprocess.run(["git", "-C", "/repo", "checkout", "--", "."])
    subprocess.run(["git", "-C", "/repo", "clean", "-fdq", "--", "pmtiles"])
    out = r.stdout + r.stderr
    viol = [l for l in out.splitlines() if l.startswith("VIOLATION")]
    nowit = [l for l in viol if l.endswith("no-failing-input-found")]
    res[s] = {**res.get(s, {}), "property": prop, "applies": True, "tier": tier, "exit": r.returncode, "violations": len(viol),
              "with_witness": len(viol) - len(nowit), "caught": r.returncode == 1 and len(viol) > 0,
              "seconds": round(time.time() - t0, 1), "last": out.strip().splitlines()[-1][:200] if out.strip() else ""}
    print(s, prop, "caught" if res[s]["caught"] else "MISSED", res[s]["with_witness"], "witness /", len(viol), "%.0fs" % (time.time() - t0), flush=True)
    json.dump(res, open(rp, "w"), indent=1)
json.dump(res, open(rp, "w"), indent=1)
