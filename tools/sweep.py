#!/usr/bin/env python3
"""Unchanged-tree sweep: run every claimed check at the given tier under several seeds (optionally several
at a time to put the machine under load) and report any run that exits non-zero or prints VIOLATION.
Evidence of sweep runs goes to a scratch directory; usage: tools/sweep.py <tier> <seeds, e.g. 2,3,5> [parallel]"""
import json, os, subprocess, sys, time, concurrent.futures as cf
V = "/verif"
tier = sys.argv[1] if len(sys.argv) > 1 else "quick"
seeds = [int(x) for x in (sys.argv[2] if len(sys.argv) > 2 else "2,3").split(",")]
par = int(sys.argv[3]) if len(sys.argv) > 3 else 1
props = sorted(json.load(open(os.path.join(V, "tools/manifest_src.json")))["checks"].keys())
if len(sys.argv) > 4:
    props = sys.argv[4].split(",")
def run(job):
    pid, seed = job
    env = dict(os.environ, VERIF_SEED=str(seed), VERIF_EVIDENCE_DIR="/tmp/verif_sweep_evidence")
    t0 = time.time()
    p = subprocess.run([os.path.join(V, "check"), pid, tier], env=env, capture_output=True, text=True)
    out = p.stdout + p.stderr
    bad = p.returncode != 0 or "VIOLATION" in out
    return pid, seed, bad, round(time.time() - t0, 1), out.strip().splitlines()[-1][:160] if out.strip() else ""
jobs = [(p, s) for s in seeds for p in props]
bad = []
with cf.ThreadPoolExecutor(max_workers=par) as ex:
    for pid, seed, b, secs, last in ex.map(run, jobs):
        print(("BAD " if b else "ok  ") + "%s seed=%d %5.1fs  %s" % (pid, seed, secs, last), flush=True)
        if b:
            bad.append((pid, seed))
print("sweep done:", len(jobs), "runs,", len(bad), "bad", bad)
