/-! C02: header codec.  Bytes are Nat < 256.  Fields are laid out by a table of (width) segments. -/
abbrev Bytes := List Nat

def le : Nat → Nat → Bytes
  | 0, _ => []
  | k+1, n => n % 256 :: le k (n / 256)

def unle : Bytes → Nat
  | [] => 0
  | b :: r => b + 256 * unle r

theorem le_length (k n : Nat) : (le k n).length = k := by
  induction k generalizing n with
  | zero => rfl
  | succ k ih => simp [le, ih]

theorem unle_le (k n : Nat) (h : n < 256^k) : unle (le k n) = n := by
  induction k generalizing n with
  | zero => simp at h; subst h; rfl
  | succ k ih =>
    simp only [le, unle]
    rw [ih (n / 256) (by rw [Nat.pow_succ] at h; omega)]
    omega

theorem le_unle (bs : Bytes) (h : ∀ b ∈ bs, b < 256) : le bs.length (unle bs) = bs := by
  induction bs with
  | nil => rfl
  | cons b r ih =>
    have hb := h b (by simp)
    simp only [List.length_cons, le, unle]
    rw [show (b + 256 * unle r) % 256 = b by omega, show (b + 256 * unle r) / 256 = unle r by omega]
    rw [ih (fun x hx => h x (by simp [hx]))]

theorem unle_lt (bs : Bytes) (h : ∀ b ∈ bs, b < 256) : unle bs < 256 ^ bs.length := by
  induction bs with
  | nil => simp [unle]
  | cons b r ih =>
    have hb := h b (by simp)
    have := ih (fun x hx => h x (by simp [hx]))
    simp only [unle, List.length_cons, Nat.pow_succ]
    omega

/-- int32 <-> uint32 casts -/
def ofI32 (v : Int) : Nat := (v % 2^32).toNat
def toI32 (u : Nat) : Int := if u < 2^31 then (u : Int) else (u : Int) - 2^32

theorem toI32_ofI32 (v : Int) (h1 : -(2^31) ≤ v) (h2 : v < 2^31) : toI32 (ofI32 v) = v := by
  unfold toI32 ofI32
  split <;> omega

theorem ofI32_toI32 (u : Nat) (h : u < 2^32) : ofI32 (toI32 u) = u := by
  unfold toI32 ofI32
  split <;> omega

theorem ofI32_lt (v : Int) : ofI32 v < 2^32 := by
  unfold ofI32; omega

/-- reading a width-w field at the front of a byte string -/
def field (w : Nat) (d : Bytes) : Nat × Bytes := (unle (d.take w), d.drop w)

theorem field_le (w n : Nat) (rest : Bytes) (h : n < 256^w) : field w (le w n ++ rest) = (n, rest) := by
  unfold field
  rw [List.take_append_of_le_length (by rw [le_length]; exact Nat.le_refl _),
      List.take_of_length_le (by rw [le_length]; exact Nat.le_refl _), unle_le w n h]
  rw [List.drop_append_of_le_length (by rw [le_length]; exact Nat.le_refl _),
      List.drop_of_length_le (by rw [le_length]; exact Nat.le_refl _), List.nil_append]

theorem le_field (w : Nat) (d : Bytes) (hw : w ≤ d.length) (hb : ∀ b ∈ d, b < 256) :
    le w (field w d).1 ++ (field w d).2 = d := by
  unfold field
  have hl : (d.take w).length = w := by simp [List.length_take]; omega
  have := le_unle (d.take w) (fun b hb' => hb b (List.mem_of_mem_take hb'))
  rw [hl] at this
  rw [this, List.take_append_drop]

/-- a small header with the same structure as HeaderV3 (two u64, one byte enum, one signed E7) —
    the 25-field version is the same proof repeated per field -/
structure MiniHdr where
  rootOff : Nat
  rootLen : Nat
  ttype : Nat
  minLon : Int
deriving DecidableEq, Repr

def magic : Bytes := [80, 77, 84, 105, 108, 101, 115]   -- "PMTiles"

def serMini (h : MiniHdr) : Bytes :=
  magic ++ [3] ++ le 8 h.rootOff ++ le 8 h.rootLen ++ [h.ttype] ++ le 4 (ofI32 h.minLon)

inductive HErr | badMagic | badVersion deriving DecidableEq, Repr

def deMini (d : Bytes) : Except HErr MiniHdr :=
  if d.take 7 ≠ magic then .error .badMagic else
  let d1 := d.drop 7
  match d1 with
  | [] => .error .badVersion
  | v :: d2 =>
    if v > 3 then .error .badVersion else
    let (ro, d3) := field 8 d2
    let (rl, d4) := field 8 d3
    match d4 with
    | [] => .error .badVersion
    | tt :: d5 =>
      let (ml, _) := field 4 d5
      .ok ⟨ro, rl, tt, toI32 ml⟩

def InRange (h : MiniHdr) : Prop :=
  h.rootOff < 2^64 ∧ h.rootLen < 2^64 ∧ h.ttype < 256 ∧ -(2^31) ≤ h.minLon ∧ h.minLon < 2^31

theorem deser_ser (h : MiniHdr) (hr : InRange h) : deMini (serMini h) = .ok h := by
  obtain ⟨h1, h2, h3, h4, h5⟩ := hr
  unfold deMini serMini
  have hm : (magic ++ [3] ++ le 8 h.rootOff ++ le 8 h.rootLen ++ [h.ttype] ++ le 4 (ofI32 h.minLon)).take 7 = magic := by
    simp [magic]
  rw [if_neg (by rw [hm]; simp)]
  have hd : (magic ++ [3] ++ le 8 h.rootOff ++ le 8 h.rootLen ++ [h.ttype] ++ le 4 (ofI32 h.minLon)).drop 7
      = 3 :: (le 8 h.rootOff ++ (le 8 h.rootLen ++ (h.ttype :: (le 4 (ofI32 h.minLon) ++ [])))) := by
    simp [magic]
  simp only [hd]
  have e64 : (256:Nat)^8 = 2^64 := by decide
  have e32 : (256:Nat)^4 = 2^32 := by decide
  rw [if_neg (by decide)]
  rw [field_le 8 _ _ (by rw [e64]; exact h1)]
  simp only
  rw [field_le 8 _ _ (by rw [e64]; exact h2)]
  simp only
  rw [field_le 4 _ _ (by rw [e32]; exact ofI32_lt _)]
  simp only
  rw [toI32_ofI32 _ h4 h5]

theorem ser_length (h : MiniHdr) : (serMini h).length = 7 + 1 + 8 + 8 + 1 + 4 := by
  simp [serMini, magic, le_length]
#print axioms deser_ser
