/-! C16 core: the interior fill of bitmap.go:27-37 over the sorted boundary IDs.  Hypothesis `Sep`:
    two consecutive IDs that are both outside the boundary set have the same inside-status
    (consecutive Hilbert IDs are edge-adjacent tiles — C01 — and a polygon edge separating their
    centres would meet one of the two tiles, which would then be a boundary tile). -/

def fill (inside : Nat → Bool) : List Nat → List (Nat × Nat)
  | a :: b :: rest =>
    (if a + 1 < b ∧ inside (a + 1) = true then [(a + 1, b)] else []) ++ fill inside (b :: rest)
  | _ => []

def memInt (t : Nat) (ivs : List (Nat × Nat)) : Prop := ∃ p ∈ ivs, p.1 ≤ t ∧ t < p.2

def StrictAsc : List Nat → Prop
  | a :: b :: rest => a < b ∧ StrictAsc (b :: rest)
  | _ => True

/-- inside-status is constant along a run of non-boundary IDs -/
theorem const_on_gap (inside : Nat → Bool) (B : List Nat)
    (sep : ∀ x, x ∉ B → x + 1 ∉ B → inside x = inside (x + 1))
    (a b : Nat) (hgap : ∀ x, a < x → x < b → x ∉ B) :
    ∀ n, a + 1 + n < b → inside (a + 1 + n) = inside (a + 1) := by
  intro n
  induction n with
  | zero => intro _; rfl
  | succ n ih =>
    intro h
    have h1 := ih (by omega)
    have := sep (a + 1 + n) (hgap _ (by omega) (by omega)) (hgap _ (by omega) (by omega))
    rw [← h1, this]; rfl

theorem lower_bound_of_asc : ∀ (B : List Nat) (a : Nat), StrictAsc (a :: B) → ∀ x ∈ B, a < x
  | [], _, _ => by intro x hx; cases hx
  | b :: rest, a, h => by
    intro x hx
    obtain ⟨h1, h2⟩ := h
    rcases List.mem_cons.mp hx with rfl | hx
    · exact h1
    · exact Nat.lt_trans h1 (lower_bound_of_asc rest b h2 x hx)

/-- **fill_exact**: between the first and the last boundary ID, a non-boundary tile is filled iff it is inside -/
theorem fill_exact (inside : Nat → Bool) :
    ∀ (B : List Nat) (all : List Nat), StrictAsc B → (∀ x ∈ B, x ∈ all) →
      (∀ x, x ∉ all → x + 1 ∉ all → inside x = inside (x + 1)) →
      -- `all` is the whole boundary set; B is the suffix still to be processed; nothing of `all` lies strictly between consecutive elements of B
      (∀ a b rest, B = a :: b :: rest → True) →
      ∀ first, B.head? = some first →
      (∀ x ∈ all, first ≤ x → x ∈ B) →
      ∀ t, t ∉ all → first < t → (∃ l ∈ B, t < l) →
        (memInt t (fill inside B) ↔ inside t = true) := by
  intro B
  induction B with
  | nil => intro all _ _ _ _ first hf; cases hf
  | cons a rest ih =>
    intro all hasc hsub sep _ first hf hcl t ht hlt hub
    simp at hf; subst hf
    cases rest with
    | nil =>
      obtain ⟨l, hl, htl⟩ := hub
      simp at hl; subst hl; omega
    | cons b rest =>
      obtain ⟨hab, hasc'⟩ := hasc
      simp only [fill]
      by_cases htb : t < b
      · -- t is in the gap (a, b)
        have hgap : ∀ x, a < x → x < b → x ∉ all := by
          intro x h1 h2 hx
          have := hcl x hx (by omega)
          simp at this
          rcases this with rfl | rfl | hr
          · omega
          · omega
          · have := lower_bound_of_asc rest b hasc' x hr; omega
        have hconst := const_on_gap inside all sep a b hgap (t - (a + 1)) (by omega)
        rw [show a + 1 + (t - (a + 1)) = t by omega] at hconst
        have hrest : ¬ memInt t (fill inside (b :: rest)) := by
          -- all later intervals start after b > t
          intro ⟨p, hp, h1, h2⟩
          have : ∀ (L : List Nat) (lo : Nat), StrictAsc (lo :: L) → ∀ p ∈ fill inside (lo :: L), lo < p.1 := by
            intro L
            induction L with
            | nil => intro lo _ p hp; simp [fill] at hp
            | cons c L ihL =>
              intro lo hs p hp
              simp only [fill, List.mem_append] at hp
              rcases hp with hp | hp
              · split at hp
                · simp at hp; subst hp; simp
                · cases hp
              · have := ihL c hs.2 p hp; have := hs.1; omega
          have := this rest b hasc' p hp
          omega
        constructor
        · intro ⟨p, hp, h1, h2⟩
          simp only [List.mem_append] at hp
          rcases hp with hp | hp
          · split at hp
            · rename_i hc; rw [hconst]; exact hc.2
            · cases hp
          · exact absurd ⟨p, hp, h1, h2⟩ hrest
        · intro hin
          refine ⟨(a + 1, b), ?_, by simp; omega, htb⟩
          simp only [List.mem_append]
          left
          rw [hconst] at hin
          simp [hin]; omega
      · -- t is beyond b: defer to the rest
        have htb' : b < t := by
          rcases Nat.lt_or_ge b t with h | h
          · exact h
          · exfalso
            have : t = b := by omega
            subst this
            exact ht (hsub t (by simp))
        have hfirst : ¬ memInt t [(a + 1, b)] := by
          intro ⟨p, hp, h1, h2⟩; simp at hp; subst hp; simp at h2; omega
        have key := ih all hasc' (fun x hx => hsub x (by simp [hx])) sep (fun _ _ _ _ => trivial) b rfl
          (by
            intro x hx hbx
            have := hcl x hx (by omega)
            simp at this
            rcases this with rfl | h
            · omega
            · simpa using h)
          t ht htb'
          (by
            obtain ⟨l, hl, htl⟩ := hub
            simp at hl
            rcases hl with rfl | rfl | hl
            · omega
            · omega
            · exact ⟨l, by simp [hl], htl⟩)
        rw [← key]
        constructor
        · intro ⟨p, hp, h1, h2⟩
          simp only [List.mem_append] at hp
          rcases hp with hp | hp
          · split at hp
            · exact absurd ⟨p, hp, h1, h2⟩ hfirst
            · cases hp
          · exact ⟨p, hp, h1, h2⟩
        · intro ⟨p, hp, h1, h2⟩
          exact ⟨p, by simp only [List.mem_append]; right; exact hp, h1, h2⟩
#print axioms fill_exact
