structure Entry where
  id : Nat
  off : Nat
  len : Nat
  rl : Nat
deriving Repr, DecidableEq

abbrev Fetch := Nat → Nat → Option (List Entry)

/-- linear-scan spec of findTile's search phase on an ascending list: last entry with id ≤ t -/
def lastLE : List Entry → Nat → Option Entry
  | [], _ => none
  | e :: rest, t => if e.id ≤ t then (match lastLE rest t with | some e' => some e' | none => some e) else none

def accept (e : Entry) (t : Nat) : Option Entry := if e.rl = 0 ∨ t - e.id < e.rl then some e else none

def lookupDir (es : List Entry) (t : Nat) : Option Entry :=
  match lastLE es t with | some e => accept e t | none => none

/-- the directory walk shared by server.go and show.go -/
def walk (fetch : Fetch) : Nat → List Entry → Nat → Option Entry
  | fuel, dir, t =>
    match lookupDir dir t with
    | none => none
    | some e =>
      if 0 < e.rl then some e else
      match fuel with
      | 0 => none
      | f+1 => match fetch e.off e.len with
        | none => none
        | some d => walk fetch f d t

/-- enumeration order = IterateEntries -/
def flattenAux (fetch : Fetch) (sub : List Entry → List Entry) : List Entry → List Entry
  | [] => []
  | e :: es =>
    (if 0 < e.rl then [e] else
      match fetch e.off e.len with
      | none => []
      | some es' => sub es') ++ flattenAux fetch sub es

def flatten (fetch : Fetch) : Nat → List Entry → List Entry
  | 0 => flattenAux fetch (fun _ => [])
  | d+1 => flattenAux fetch (flatten fetch d)

theorem flatten_nil (fetch : Fetch) (d : Nat) : flatten fetch d [] = [] := by
  cases d <;> rfl

theorem flatten_tile (fetch : Fetch) (d : Nat) (e : Entry) (es : List Entry) (h : 0 < e.rl) :
    flatten fetch d (e :: es) = e :: flatten fetch d es := by
  cases d <;> simp [flatten, flattenAux, h]

theorem flatten_ptr (fetch : Fetch) (d : Nat) (e : Entry) (es es' : List Entry) (h : ¬ 0 < e.rl)
    (hf : fetch e.off e.len = some es') :
    flatten fetch (d+1) (e :: es) = flatten fetch d es' ++ flatten fetch (d+1) es := by
  simp [flatten, flattenAux, h, hf]

def covers (e : Entry) (t : Nat) : Bool := decide (e.id ≤ t ∧ t < e.id + e.rl)
def lookupFlat (es : List Entry) (t : Nat) : Option Entry := es.find? (covers · t)

/-- well-formed directory of depth ≤ d responsible for IDs in [lo, hi) -/
inductive WF (fetch : Fetch) : Nat → Nat → Nat → List Entry → Prop
  | nil {d lo hi} : lo ≤ hi → WF fetch d lo hi []
  | tile {d lo hi e es} : lo ≤ e.id → 0 < e.rl → WF fetch d (e.id + e.rl) hi es → WF fetch d lo hi (e :: es)
  | ptr {d lo hi mid e es es'} : lo ≤ e.id → e.rl = 0 → fetch e.off e.len = some es' →
      (∃ h t, es' = h :: t ∧ h.id = e.id) → WF fetch d e.id mid es' → WF fetch (d+1) mid hi es →
      WF fetch (d+1) lo hi (e :: es)

theorem WF.le {fetch d lo hi es} (h : WF fetch d lo hi es) : lo ≤ hi := by
  induction h with
  | nil h => exact h
  | tile h1 h2 _ ih => omega
  | ptr h1 _ _ _ _ _ ih1 ih2 => omega

/-- every flattened entry's coverage lies in [lo, hi) -/
theorem flat_bounds {fetch d lo hi es} (h : WF fetch d lo hi es) :
    ∀ x ∈ flatten fetch d es, lo ≤ x.id ∧ x.id + x.rl ≤ hi := by
  induction h with
  | nil _ => intro x hx; simp [flatten_nil] at hx
  | @tile d lo hi e es h1 h2 hw ih =>
    intro x hx
    rw [flatten_tile _ _ _ _ h2] at hx; simp only [List.mem_cons] at hx
    rcases hx with rfl | hx
    · exact ⟨h1, hw.le⟩
    · have := ih x hx; omega
  | @ptr d lo hi mid e es es' h1 h2 hf hh hw1 hw2 ih1 ih2 =>
    intro x hx
    have : ¬ (0 < e.rl) := by omega
    rw [flatten_ptr _ _ _ _ _ this hf] at hx; simp only [List.mem_append] at hx
    rcases hx with hx | hx
    · have := ih1 x hx; have := hw2.le; omega
    · have := ih2 x hx; have := hw1.le; omega

theorem lookupFlat_none_of_lt {fetch d lo hi es} (h : WF fetch d lo hi es) (t : Nat) (ht : t < lo) :
    lookupFlat (flatten fetch d es) t = none := by
  unfold lookupFlat
  rw [List.find?_eq_none]
  intro x hx
  have := flat_bounds h x hx
  simp [covers]; omega

theorem lookupFlat_none_of_ge {fetch d lo hi es} (h : WF fetch d lo hi es) (t : Nat) (ht : hi ≤ t) :
    lookupFlat (flatten fetch d es) t = none := by
  unfold lookupFlat
  rw [List.find?_eq_none]
  intro x hx
  have := flat_bounds h x hx
  simp [covers]; omega

theorem lastLE_none_of_lt {fetch d lo hi es} (h : WF fetch d lo hi es) (t : Nat) (ht : t < lo) :
    lastLE es t = none := by
  cases h with
  | nil _ => rfl
  | tile h1 _ _ => simp [lastLE]; omega
  | ptr h1 _ _ _ _ _ => simp [lastLE]; omega

theorem lookupFlat_append (a b : List Entry) (t : Nat) :
    lookupFlat (a ++ b) t = (match lookupFlat a t with | some e => some e | none => lookupFlat b t) := by
  unfold lookupFlat
  rw [List.find?_append]
  cases List.find? (covers · t) a <;> rfl

theorem walk_eq {fetch d lo hi es} (h : WF fetch d lo hi es) :
    ∀ fuel t, d ≤ fuel → walk fetch fuel es t = lookupFlat (flatten fetch d es) t := by
  induction h with
  | nil _ => intro fuel t _; simp [walk, lookupDir, lastLE, flatten_nil, lookupFlat]
  | @tile d lo hi e es h1 h2 hw ih =>
    intro fuel t hfu
    have hrest := ih fuel t hfu
    rw [flatten_tile _ _ _ _ h2]
    by_cases hlt : e.id ≤ t
    · by_cases hin : t < e.id + e.rl
      · -- inside e's run
        have hn := lastLE_none_of_lt hw t hin
        have hacc : accept e t = some e := by unfold accept; rw [if_pos]; right; omega
        unfold walk
        simp only [lookupDir, lastLE, hlt, if_true, hn, hacc, h2]
        simp [lookupFlat, covers, hlt, hin]
      · -- beyond e's run: behaves like the rest
        have hflat : lookupFlat (e :: flatten fetch d es) t = lookupFlat (flatten fetch d es) t := by
          simp [lookupFlat, covers, List.find?_cons, hin]
        rw [hflat, ← hrest]
        cases hl : lastLE es t with
        | none =>
          have hacc : accept e t = none := by unfold accept; rw [if_neg]; omega
          unfold walk
          simp [lookupDir, lastLE, hlt, hl, hacc]
        | some e' =>
          unfold walk
          simp [lookupDir, lastLE, hlt, hl]
    · -- before e
      have hn : lastLE es t = none := lastLE_none_of_lt hw t (by omega)
      have h1' : lookupFlat (e :: flatten fetch d es) t = none := by
        have := lookupFlat_none_of_lt hw t (by omega)
        simp [lookupFlat, covers, List.find?_cons, hlt] at this ⊢
        exact this
      rw [h1']
      unfold walk
      simp [lookupDir, lastLE, hlt]
  | @ptr d lo hi mid e es es' h1 h2 hf hh hw1 hw2 ih1 ih2 =>
    intro fuel t hfu
    have hnr : ¬ (0 < e.rl) := by omega
    rw [flatten_ptr _ _ _ _ _ hnr hf]
    rw [lookupFlat_append]
    obtain ⟨f, rfl⟩ : ∃ f, fuel = f + 1 := ⟨fuel - 1, by omega⟩
    have hleaf := ih1 f t (by omega)
    have hrest := ih2 (f+1) t hfu
    have hmidle := hw1.le
    by_cases hlt : e.id ≤ t
    · by_cases hin : t < mid
      · -- t belongs to the leaf's interval
        have hn := lastLE_none_of_lt hw2 t hin
        have hacc : accept e t = some e := by unfold accept; rw [if_pos]; left; exact h2
        have hrn := lookupFlat_none_of_lt hw2 t hin
        rw [hrn]
        have : walk fetch (f+1) (e :: es) t = walk fetch f es' t := by
          conv => lhs; unfold walk
          simp only [lookupDir, lastLE, hlt, if_true, hn, hacc, hnr, if_false, hf]
        rw [this, hleaf]
        cases lookupFlat (flatten fetch d es') t <;> rfl
      · -- t ≥ mid: leaf contributes nothing
        have hln := lookupFlat_none_of_ge hw1 t (by omega)
        rw [hln]
        simp only
        rw [← hrest]
        cases hl : lastLE es t with
        | none =>
          -- pointer e is the last ≤ t; descend; leaf has nothing for t; rest has nothing either
          have hacc : accept e t = some e := by unfold accept; rw [if_pos]; left; exact h2
          have hw : walk fetch (f+1) (e :: es) t = walk fetch f es' t := by
            conv => lhs; unfold walk
            simp only [lookupDir, lastLE, hlt, if_true, hl, hacc, hnr, if_false, hf]
          rw [hw, hleaf, hln]
          conv => rhs; unfold walk
          simp [lookupDir, hl]
        | some e' =>
          conv => lhs; unfold walk
          conv => rhs; unfold walk
          simp [lookupDir, lastLE, hlt, hl]
    · have hn : lastLE es t = none := lastLE_none_of_lt hw2 t (by omega)
      have hln := lookupFlat_none_of_lt hw1 t (by omega)
      have hrn := lookupFlat_none_of_lt hw2 t (by omega)
      rw [hln]; simp only; rw [hrn]
      unfold walk
      simp [lookupDir, lastLE, hlt]

/-! ## C05 core: buildRootsLeaves — pointers, tiling of the leaf section, read-back -/
abbrev Bytes := List Nat
def bslice (d : Bytes) (o l : Nat) : Bytes := (d.drop o).take l

variable (ser : List Entry → Bytes) (de : Bytes → List Entry) (hrt : ∀ es, de (ser es) = es)

def headId : List Entry → Nat
  | [] => 0
  | e :: _ => e.id

/-- the loop of buildRootsLeaves over the already-cut chunks, `off` = len(leavesBytes) so far -/
def buildGo (off : Nat) : List (List Entry) → List Entry × Bytes
  | [] => ([], [])
  | c :: cs =>
    let b := ser c
    let r := buildGo (off + b.length) cs
    (⟨headId c, off, b.length, 0⟩ :: r.1, b ++ r.2)

/-- reading a leaf back: the leaf section is `pre ++ lb` and offsets are relative to its start -/
def fetchLeaf (section_ : Bytes) : Fetch := fun o l => some (de (bslice section_ o l))

theorem flatten0_tiles (fetch : Fetch) (es : List Entry) (h : ∀ e ∈ es, 0 < e.rl) :
    flatten fetch 0 es = es := by
  induction es with
  | nil => exact flatten_nil fetch 0
  | cons e es ih =>
    rw [flatten_tile _ _ _ _ (h e (by simp)), ih (fun x hx => h x (by simp [hx]))]

theorem bslice_mid (pre b post : Bytes) : bslice (pre ++ b ++ post) pre.length b.length = b := by
  unfold bslice
  simp [List.append_assoc]

include hrt in
/-- tiling + read-back: with `pre` the leaf bytes already written (|pre| = off), every pointer produced for the
    remaining chunks addresses exactly its own serialized chunk, the chunks lie back to back, and enumerating the
    pointers through the reader yields the chunks' entries in order. -/
theorem build_readback (cs : List (List Entry)) (htiles : ∀ c ∈ cs, ∀ e ∈ c, 0 < e.rl) :
    ∀ (pre post : Bytes),
      flatten (fetchLeaf de (pre ++ (buildGo ser pre.length cs).2 ++ post)) 1 (buildGo ser pre.length cs).1 = cs.flatten := by
  induction cs with
  | nil => intro pre post; simp [buildGo, flatten_nil]
  | cons c cs ih =>
    intro pre post
    simp only [buildGo, List.flatten_cons]
    have hnr : ¬ 0 < (⟨headId c, pre.length, (ser c).length, 0⟩ : Entry).rl := by simp
    have hf : fetchLeaf de (pre ++ (ser c ++ (buildGo ser (pre.length + (ser c).length) cs).2) ++ post)
                pre.length (ser c).length = some c := by
      unfold fetchLeaf
      have : pre ++ (ser c ++ (buildGo ser (pre.length + (ser c).length) cs).2) ++ post
           = pre ++ ser c ++ ((buildGo ser (pre.length + (ser c).length) cs).2 ++ post) := by
        simp [List.append_assoc]
      rw [this, bslice_mid, hrt]
    rw [flatten_ptr _ 0 _ _ c hnr hf]
    rw [flatten0_tiles _ c (htiles c (by simp))]
    congr 1
    have := ih (fun c' hc' => htiles c' (by simp [hc'])) (pre ++ ser c) post
    simp only [List.length_append, List.append_assoc] at this ⊢
    exact this

/-- the leaves are exactly the serialized chunks back to back, and pointer offsets are the running sum -/
theorem build_leaves (cs : List (List Entry)) (off : Nat) :
    (buildGo ser off cs).2 = (cs.map ser).flatten := by
  induction cs generalizing off with
  | nil => rfl
  | cons c cs ih => simp [buildGo, ih]

theorem build_pointers (cs : List (List Entry)) (off : Nat) :
    ∀ p ∈ (buildGo ser off cs).1, p.rl = 0 ∧ off ≤ p.off ∧ p.off + p.len ≤ off + (buildGo ser off cs).2.length := by
  induction cs generalizing off with
  | nil => intro p hp; simp [buildGo] at hp
  | cons c cs ih =>
    intro p hp
    simp only [buildGo, List.mem_cons] at hp
    rcases hp with rfl | hp
    · simp [buildGo]
    · have := ih (off + (ser c).length) p hp
      simp only [buildGo, List.length_append]
      omega
#print axioms build_readback
