/-- Go binary.PutUvarint -/
def putUvarint (x : Nat) : List Nat :=
  if h : x < 128 then [x] else (x % 128 + 128) :: putUvarint (x / 128)
termination_by x
decreasing_by omega

/-- Go binary.ReadUvarint on a byte list: returns value and rest; none on EOF/overflow.
    i = index of current byte, s = shift, acc = x -/
def readUvarintAux : (bs : List Nat) → (i : Nat) → (acc : Nat) → Option (Nat × List Nat)
  | [], _, _ => none
  | b :: rest, i, acc =>
    if i = 10 then none else
    if b < 128 then
      if i = 9 ∧ b > 1 then none else some (acc + b * 2^(7*i), rest)
    else readUvarintAux rest (i+1) (acc + (b % 128) * 2^(7*i))

def readUvarint (bs : List Nat) := readUvarintAux bs 0 0

theorem read_put_aux (x : Nat) (i acc : Nat) (rest : List Nat) (hx : x * 2^(7*i) < 2^64) (hi : i ≤ 9) :
    readUvarintAux (putUvarint x ++ rest) i acc = some (acc + x * 2^(7*i), rest) := by
  induction x using Nat.strongRecOn generalizing i acc with
  | _ x ih =>
    rw [putUvarint]
    split
    · rename_i h
      simp only [List.cons_append, List.nil_append, readUvarintAux]
      have h10 : i ≠ 10 := by omega
      simp only [h10, if_false, h, if_true]
      split
      · rename_i h9
        exfalso
        obtain ⟨rfl, hb⟩ := h9
        have e0 : (2:Nat)^(7*9) = 2^63 := rfl
        rw [e0] at hx
        have : x * 2^63 ≥ 2 * 2^63 := Nat.mul_le_mul_right _ hb
        have e : (2:Nat)^64 = 2 * 2^63 := by decide
        omega
      · rfl
    · rename_i h
      simp only [List.cons_append, readUvarintAux]
      have h10 : i ≠ 10 := by omega
      have hb : ¬ (x % 128 + 128 < 128) := by omega
      simp only [h10, if_false, hb]
      have hi9 : i < 9 := by
        rcases Nat.lt_or_ge i 9 with h' | h'
        · exact h'
        · exfalso
          have : i = 9 := by omega
          subst this
          have : x * 2^63 ≥ 128 * 2^63 := Nat.mul_le_mul_right _ (by omega)
          have e : (2:Nat)^64 = 2 * 2^63 := by decide
          have e2 : 7 * 9 = 63 := rfl
          rw [e2] at hx
          omega
      have hpow : (2:Nat)^(7*(i+1)) = 128 * 2^(7*i) := by
        rw [show 7*(i+1) = 7*i + 7 by omega, Nat.pow_add, Nat.mul_comm]
      have hx' : x / 128 * 2^(7*(i+1)) < 2^64 := by
        rw [hpow, ← Nat.mul_assoc]
        have : x / 128 * 128 ≤ x := Nat.div_mul_le_self x 128
        exact Nat.lt_of_le_of_lt (Nat.mul_le_mul_right _ this) hx
      rw [ih (x/128) (by omega) (i+1) _ hx' (by omega)]
      congr 2
      rw [hpow]
      have : (x % 128 + 128) % 128 = x % 128 := by omega
      rw [this, Nat.add_assoc, ← Nat.mul_assoc, ← Nat.add_mul]
      congr 2
      have := Nat.div_add_mod x 128
      omega

theorem read_put (x : Nat) (hx : x < 2^64) (rest : List Nat) :
    readUvarint (putUvarint x ++ rest) = some (x, rest) := by
  have := read_put_aux x 0 0 rest (by simpa using hx) (by omega)
  simpa [readUvarint] using this

/-! ## columns -/
def putAll : List Nat → List Nat
  | [] => []
  | x :: xs => putUvarint x ++ putAll xs

def readN : Nat → List Nat → Option (List Nat × List Nat)
  | 0, bs => some ([], bs)
  | n+1, bs =>
    match readUvarint bs with
    | none => none
    | some (x, r) =>
      match readN n r with
      | none => none
      | some (xs, r') => some (x :: xs, r')

theorem readN_putAll (xs : List Nat) (h : ∀ x ∈ xs, x < 2^64) (rest : List Nat) :
    readN xs.length (putAll xs ++ rest) = some (xs, rest) := by
  induction xs with
  | nil => rfl
  | cons x xs ih =>
    simp only [List.length_cons, putAll, readN, List.append_assoc]
    rw [read_put x (h x (by simp))]
    simp only
    rw [ih (fun y hy => h y (by simp [hy]))]

/-! ## entries -/
structure Entry where
  id : Nat
  off : Nat
  len : Nat
  rl : Nat
deriving Repr, DecidableEq

def W : Nat := 2^64

/-- delta column, `uint64` subtraction -/
def deltas : Nat → List Entry → List Nat
  | _, [] => []
  | last, e :: es => ((e.id + W - last) % W) :: deltas e.id es

/-- offset column: 0 = contiguous with previous, else off+1 (uint64) -/
def offCol : Option Entry → List Entry → List Nat
  | _, [] => []
  | none, e :: es => ((e.off + 1) % W) :: offCol (some e) es
  | some p, e :: es =>
    (if e.off = (p.off + p.len) % W then 0 else (e.off + 1) % W) :: offCol (some e) es

def serialize (es : List Entry) : List Nat :=
  putUvarint es.length ++ putAll (deltas 0 es) ++ putAll (es.map (·.rl)) ++ putAll (es.map (·.len))
    ++ putAll (offCol none es)

def undeltas : Nat → List Nat → List Nat
  | _, [] => []
  | last, d :: ds => ((last + d) % W) :: undeltas ((last + d) % W) ds

def unoff : Option (Nat × Nat) → List (Nat × Nat) → List Nat      -- (encoded, len) pairs
  | _, [] => []
  | none, (t, l) :: r => let o := (t + W - 1) % W; o :: unoff (some (o, l)) r
  | some (po, pl), (t, l) :: r =>
    let o := if t = 0 then (po + pl) % W else (t + W - 1) % W
    o :: unoff (some (o, l)) r

def zip4 : List Nat → List Nat → List Nat → List Nat → List Entry
  | i :: is, o :: os, l :: ls, r :: rs => ⟨i, o, l, r⟩ :: zip4 is os ls rs
  | _, _, _, _ => []

def deserialize (bs : List Nat) : Option (List Entry) :=
  match readUvarint bs with
  | none => none
  | some (n, r0) =>
  match readN n r0 with
  | none => none
  | some (ds, r1) =>
  match readN n r1 with
  | none => none
  | some (rls, r2) =>
  match readN n r2 with
  | none => none
  | some (lens, r3) =>
  match readN n r3 with
  | none => none
  | some (offs, _) =>
    let ids := undeltas 0 ds
    let lens32 := lens.map (· % 2^32)
    let rls32 := rls.map (· % 2^32)
    some (zip4 ids (unoff none (offs.zip lens32)) lens32 rls32)

def InRange (e : Entry) : Prop := e.id < W ∧ e.off < W - 1 ∧ e.len < 2^32 ∧ e.rl < 2^32

theorem deltas_lt (last : Nat) (es : List Entry) : ∀ x ∈ deltas last es, x < 2^64 := by
  induction es generalizing last with
  | nil => simp [deltas]
  | cons e es ih =>
    intro x hx
    simp only [deltas, List.mem_cons] at hx
    rcases hx with rfl | hx
    · exact Nat.mod_lt _ (by decide)
    · exact ih _ x hx

theorem offCol_lt (p : Option Entry) (es : List Entry) : ∀ x ∈ offCol p es, x < 2^64 := by
  induction es generalizing p with
  | nil => cases p <;> simp [offCol]
  | cons e es ih =>
    intro x hx
    cases p with
    | none =>
      simp only [offCol, List.mem_cons] at hx
      rcases hx with rfl | hx
      · exact Nat.mod_lt _ (by decide)
      · exact ih _ x hx
    | some p =>
      simp only [offCol, List.mem_cons] at hx
      rcases hx with rfl | hx
      · split
        · decide
        · exact Nat.mod_lt _ (by decide)
      · exact ih _ x hx

theorem undeltas_deltas (last : Nat) (es : List Entry) (hl : last < W) (h : ∀ e ∈ es, e.id < W) :
    undeltas last (deltas last es) = es.map (·.id) := by
  induction es generalizing last with
  | nil => rfl
  | cons e es ih =>
    have he : e.id < W := h e (by simp)
    have : (last + (e.id + W - last) % W) % W = e.id := by
      unfold W at *; omega
    simp only [deltas, undeltas, List.map_cons, this]
    rw [ih e.id he (fun x hx => h x (by simp [hx]))]

theorem unoff_offCol (p : Option Entry) (es : List Entry) (h : ∀ e ∈ es, InRange e)
    (hp : ∀ q, p = some q → q.off < W ∧ q.len < 2^32) :
    unoff (p.map (fun q => (q.off, q.len))) ((offCol p es).zip (es.map (·.len))) = es.map (·.off) := by
  induction es generalizing p with
  | nil => cases p <;> rfl
  | cons e es ih =>
    have he := h e (by simp)
    obtain ⟨h1, h2, h3, h4⟩ := he
    have hrec := ih (some e) (fun x hx => h x (by simp [hx])) (by intro q hq; cases hq; exact ⟨by unfold W at *; omega, h3⟩)
    cases p with
    | none =>
      simp only [offCol, List.map_cons, List.zip_cons_cons, Option.map_none, unoff]
      have : ((e.off + 1) % W + W - 1) % W = e.off := by unfold W at *; omega
      rw [this]
      simp only [Option.map_some] at hrec
      rw [hrec]
    | some q =>
      simp only [offCol, List.map_cons, List.zip_cons_cons, Option.map_some, unoff]
      have hq := hp q rfl
      split
      · rename_i hc
        simp only [if_true]
        rw [← hc]
        simp only [Option.map_some] at hrec
        rw [hrec]
      · rename_i hc
        have hne : (e.off + 1) % W ≠ 0 := by unfold W at *; omega
        simp only [hne, if_false]
        have : ((e.off + 1) % W + W - 1) % W = e.off := by unfold W at *; omega
        rw [this]
        simp only [Option.map_some] at hrec
        rw [hrec]

theorem zip4_map (es : List Entry) :
    zip4 (es.map (·.id)) (es.map (·.off)) (es.map (·.len)) (es.map (·.rl)) = es := by
  induction es with
  | nil => rfl
  | cons e es ih => simp [zip4, ih]

theorem map_mod_id (es : List Entry) (f : Entry → Nat) (h : ∀ e ∈ es, f e < 2^32) :
    (es.map f).map (· % 2^32) = es.map f := by
  induction es with
  | nil => rfl
  | cons e es ih =>
    simp only [List.map_cons]
    rw [Nat.mod_eq_of_lt (h e (by simp)), ih (fun x hx => h x (by simp [hx]))]

theorem deltas_length (last : Nat) (es : List Entry) : (deltas last es).length = es.length := by
  induction es generalizing last with
  | nil => rfl
  | cons e es ih => simp [deltas, ih]

theorem offCol_length (p : Option Entry) (es : List Entry) : (offCol p es).length = es.length := by
  induction es generalizing p with
  | nil => cases p <;> rfl
  | cons e es ih => cases p <;> simp [offCol, ih]

theorem roundtrip (es : List Entry) (hn : es.length < 2^64) (h : ∀ e ∈ es, InRange e) :
    deserialize (serialize es) = some es := by
  unfold serialize deserialize
  simp only [List.append_assoc]
  rw [read_put _ hn]
  simp only
  have l1 := deltas_length 0 es
  have l4 := offCol_length none es
  have r1 := readN_putAll (deltas 0 es) (deltas_lt 0 es)
  rw [l1] at r1; rw [r1]; simp only
  have r2 := readN_putAll (es.map (·.rl)) (by
    intro x hx; simp at hx; obtain ⟨e, he, rfl⟩ := hx
    have := (h e he).2.2.2; omega)
  rw [List.length_map] at r2; rw [r2]; simp only
  have r3 := readN_putAll (es.map (·.len)) (by
    intro x hx; simp at hx; obtain ⟨e, he, rfl⟩ := hx
    have := (h e he).2.2.1; omega)
  rw [List.length_map] at r3; rw [r3]; simp only
  have r4 := readN_putAll (offCol none es) (offCol_lt none es) []
  rw [l4, List.append_nil] at r4; rw [r4]; simp only
  rw [undeltas_deltas 0 es (by decide) (fun e he => (h e he).1)]
  rw [map_mod_id es (·.len) (fun e he => (h e he).2.2.1), map_mod_id es (·.rl) (fun e he => (h e he).2.2.2)]
  have := unoff_offCol none es h (by intro q hq; cases hq)
  simp only [Option.map_none] at this
  rw [this, zip4_map]
#print axioms roundtrip
