/-! C07/C19 core: merged download plans (extract.go:159-235, 501-522) write exactly the bytes the
    unmerged ranges write, and transfer total + (sum of merged gaps). -/
abbrev Bytes := List Nat

structure Rng where
  src : Nat
  dst : Nat
  len : Nat
deriving Repr, DecidableEq

def slice (d : Bytes) (o l : Nat) : Bytes := (d.drop o).take l

/-- a group = consecutive ranges (in output order) fetched by one request -/
def Chain : List Rng → Prop
  | [] => True
  | [_] => True
  | a :: b :: rest => a.src + a.len ≤ b.src ∧ b.dst = a.dst + a.len ∧ Chain (b :: rest)

/-- copy/discard list of a group: (wanted, discard) -/
def cds : List Rng → List (Nat × Nat)
  | [] => []
  | [a] => [(a.len, 0)]
  | a :: b :: rest => (a.len, b.src - (a.src + a.len)) :: cds (b :: rest)

/-- length of the merged span -/
def spanLen : List Rng → Nat
  | [] => 0
  | [a] => a.len
  | a :: b :: rest => a.len + (b.src - (a.src + a.len)) + spanLen (b :: rest)

/-- `downloadPart`: sequentially copy `wanted` bytes to the offset writer, then discard -/
def execCDs : Bytes → Nat → List (Nat × Nat) → List (Nat × Bytes)
  | _, _, [] => []
  | chunk, dst, (w, d) :: rest => (dst, chunk.take w) :: execCDs (chunk.drop (w + d)) (dst + w) rest

def execGroup (source : Bytes) (g : List Rng) : List (Nat × Bytes) :=
  match g with
  | [] => []
  | a :: _ => execCDs (slice source a.src (spanLen g)) a.dst (cds g)

theorem take_drop_slice (source : Bytes) (o L k : Nat) (hk : k ≤ L) :
    (slice source o L).drop k = slice source (o + k) (L - k) := by
  unfold slice
  rw [List.drop_take, List.drop_drop]

theorem take_slice (source : Bytes) (o L w : Nat) (hw : w ≤ L) :
    (slice source o L).take w = slice source o w := by
  unfold slice
  rw [List.take_take, Nat.min_eq_left hw]

/-- merged request = the individual ranges, byte for byte, at the same output offsets -/
theorem execGroup_eq (source : Bytes) (g : List Rng) (hc : Chain g) :
    execGroup source g = g.map (fun r => (r.dst, slice source r.src r.len)) := by
  cases g with
  | nil => rfl
  | cons a rest =>
    unfold execGroup
    simp only
    induction rest generalizing a with
    | nil =>
      simp [cds, spanLen, execCDs, take_slice]
    | cons b rest ih =>
      obtain ⟨h1, h2, h3⟩ := hc
      simp only [cds, spanLen, execCDs, List.map_cons]
      have hw : a.len ≤ a.len + (b.src - (a.src + a.len)) + spanLen (b :: rest) := by omega
      rw [take_slice _ _ _ _ hw]
      congr 1
      rw [take_drop_slice _ _ _ _ (by omega)]
      have e1 : a.src + (a.len + (b.src - (a.src + a.len))) = b.src := by omega
      have e2 : a.len + (b.src - (a.src + a.len)) + spanLen (b :: rest) - (a.len + (b.src - (a.src + a.len))) = spanLen (b :: rest) := by omega
      rw [e1, e2, ← h2]
      have := ih b h3
      simp only [List.map_cons] at this
      exact this

/-- bytes transferred by a group = wanted bytes + the gaps that were merged -/
def wanted : List Rng → Nat
  | [] => 0
  | a :: rest => a.len + wanted rest

def gaps : List Rng → Nat
  | [] => 0
  | [_] => 0
  | a :: b :: rest => (b.src - (a.src + a.len)) + gaps (b :: rest)

theorem spanLen_eq (g : List Rng) : spanLen g = wanted g + gaps g := by
  induction g with
  | nil => rfl
  | cons a rest ih =>
    cases rest with
    | nil => simp [spanLen, wanted, gaps]
    | cons b rest =>
      simp only [spanLen, wanted, gaps] at ih ⊢
      omega

/-- the merged span stays inside [first.src, last.src + last.len) — hence inside the tile-data section -/
theorem span_inside (g : List Rng) (a : Rng) (rest : List Rng) (hg : g = a :: rest) (hc : Chain g)
    (lim : Nat) (hlim : ∀ r ∈ g, r.src + r.len ≤ lim) : a.src + spanLen g ≤ lim := by
  subst hg
  induction rest generalizing a with
  | nil => simp [spanLen]; exact hlim a (by simp)
  | cons b rest ih =>
    obtain ⟨h1, h2, h3⟩ := hc
    have := ih b h3 (fun r hr => hlim r (by simp at hr ⊢; right; exact hr))
    simp only [spanLen]
    omega

/-- whole plan: groups partition the range list (any grouping!), budget bound -/
theorem transfer_bound (groups : List (List Rng)) (budget : Nat)
    (hb : (groups.map gaps).sum ≤ budget) :
    (groups.map spanLen).sum ≤ (groups.map wanted).sum + budget := by
  have : (groups.map spanLen).sum = (groups.map wanted).sum + (groups.map gaps).sum := by
    induction groups with
    | nil => rfl
    | cons g gs ih =>
      simp only [List.map_cons, List.sum_cons, spanLen_eq]
      have := ih (by simp only [List.map_cons, List.sum_cons] at hb; omega)
      omega
  omega
#print axioms execGroup_eq
#print axioms transfer_bound
