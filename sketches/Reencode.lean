/-! C07: reencodeEntries (extract.go:93-123): entries of the source (offsets into the source tile data) are
    re-addressed to contiguous offsets in the output; `ranges` says which source bytes go where. -/
structure Entry where
  id : Nat
  off : Nat
  len : Nat
  rl : Nat
deriving Repr, DecidableEq

structure Rng where
  src : Nat
  dst : Nat
  len : Nat
deriving Repr, DecidableEq

abbrev Bytes := List Nat
def slice (d : Bytes) (o l : Nat) : Bytes := (d.drop o).take l

structure RS where
  out : List Entry                 -- reencoded, newest first
  seen : List (Nat × Nat)          -- source offset ↦ new offset
  ranges : List Rng                -- newest first (Go appends; the last one may be extended)
  dstOff : Nat

def lookup (seen : List (Nat × Nat)) (o : Nat) : Option Nat :=
  match seen.find? (fun p => p.1 == o) with
  | some p => some p.2
  | none => none

def step (s : RS) (e : Entry) : RS :=
  match lookup s.seen e.off with
  | some v => { s with out := ⟨e.id, v, e.len, e.rl⟩ :: s.out }
  | none =>
    let ranges' :=
      match s.ranges with
      | last :: rest => if last.src + last.len = e.off then { last with len := last.len + e.len } :: rest
                        else ⟨e.off, s.dstOff, e.len⟩ :: s.ranges
      | [] => [⟨e.off, s.dstOff, e.len⟩]
    { out := ⟨e.id, s.dstOff, e.len, e.rl⟩ :: s.out,
      seen := (e.off, s.dstOff) :: s.seen,
      ranges := ranges',
      dstOff := s.dstOff + e.len }

/-- the output tile data: source slices laid down in range order (oldest first) -/
def render (src : Bytes) : List Rng → Bytes
  | [] => []
  | r :: older => render src older ++ slice src r.src r.len

/-- ranges, oldest first, tile [0, dstOff) -/
def Tiles : List Rng → Nat → Prop
  | [], n => n = 0
  | r :: older, n => r.dst + r.len = n ∧ Tiles older r.dst

structure RInv (src : Bytes) (s : RS) : Prop where
  tiles : Tiles s.ranges s.dstOff
  rlen  : (render src s.ranges).length = s.dstOff
  inSrc : ∀ r ∈ s.ranges, r.src + r.len ≤ src.length
  seenOk : ∀ p ∈ s.seen, ∀ e ∈ s.out, True

theorem slice_len (d : Bytes) (o l : Nat) (h : o + l ≤ d.length) : (slice d o l).length = l := by
  unfold slice; simp; omega

theorem slice_add (d : Bytes) (o l1 l2 : Nat) (h : o + l1 + l2 ≤ d.length) :
    slice d o (l1 + l2) = slice d o l1 ++ slice d (o + l1) l2 := by
  unfold slice
  rw [← List.drop_drop, List.take_add]

theorem step_tiles (src : Bytes) (s : RS) (e : Entry) (hi : RInv src s) (he : e.off + e.len ≤ src.length) :
    RInv src (step s e) := by
  unfold step
  cases hl : lookup s.seen e.off with
  | some v => exact ⟨hi.tiles, hi.rlen, hi.inSrc, fun _ _ _ _ => trivial⟩
  | none =>
    simp only
    cases hr : s.ranges with
    | nil =>
      have ht := hi.tiles; rw [hr] at ht; simp only [Tiles] at ht
      have hl' := hi.rlen; rw [hr] at hl'; simp only [render, List.length_nil] at hl'
      refine ⟨?_, ?_, ?_, fun _ _ _ _ => trivial⟩
      · simp only [Tiles]; exact ⟨trivial, ht⟩
      · simp only [render, List.nil_append]; rw [slice_len _ _ _ he]; omega
      · intro r hr'; simp at hr'; subst hr'; exact he
    | cons last rest =>
      have ht := hi.tiles; rw [hr] at ht; simp only [Tiles] at ht
      have hl' := hi.rlen; rw [hr] at hl'; simp only [render, List.length_append] at hl'
      have hlast := hi.inSrc last (by rw [hr]; simp)
      simp only
      split
      · rename_i hc
        refine ⟨?_, ?_, ?_, fun _ _ _ _ => trivial⟩
        · simp only [Tiles]; exact ⟨by omega, ht.2⟩
        · simp only [render, List.length_append]
          rw [slice_len _ _ _ (by omega)]
          rw [slice_len _ _ _ hlast] at hl'
          omega
        · intro r hr'
          simp only [List.mem_cons] at hr'
          rcases hr' with rfl | hr'
          · simp only; omega
          · exact hi.inSrc r (by rw [hr]; simp [hr'])
      · refine ⟨?_, ?_, ?_, fun _ _ _ _ => trivial⟩
        · simp only [Tiles]; exact ⟨trivial, ht⟩
        · simp only [render, List.length_append]
          rw [slice_len _ _ _ he]
          have := hi.rlen; rw [hr] at this; simp only [render, List.length_append] at this
          omega
        · intro r hr'
          simp only [List.mem_cons] at hr'
          rcases hr' with rfl | hr'
          · exact he
          · exact hi.inSrc r (by rw [hr]; simp at hr' ⊢; exact hr')

/-- extending the last range by contiguous source bytes appends exactly those bytes -/
theorem render_extend (src : Bytes) (last : Rng) (rest : List Rng) (l : Nat)
    (h : last.src + last.len + l ≤ src.length) :
    render src ({ last with len := last.len + l } :: rest) =
      render src (last :: rest) ++ slice src (last.src + last.len) l := by
  simp only [render]
  rw [slice_add _ _ _ _ h, List.append_assoc]

/-- **new content lands at the old end of the output**: in both branches the output grows by exactly the entry's bytes -/
theorem render_step (src : Bytes) (s : RS) (e : Entry) (he : e.off + e.len ≤ src.length)
    (hl : lookup s.seen e.off = none) :
    render src (step s e).ranges = render src s.ranges ++ slice src e.off e.len := by
  unfold step
  rw [hl]
  simp only
  cases hr : s.ranges with
  | nil => simp [render]
  | cons last rest =>
    simp only
    split
    · rename_i hc
      rw [render_extend src last rest e.len (by omega), hc]
    · simp [render]
#print axioms step_tiles
#print axioms render_step
