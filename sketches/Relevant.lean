/-! C07: RelevantEntries' run trimming (extract.go:54-76): an entry with run length > 1 is cut into
    the maximal sub-runs whose IDs are in the relevance set S. -/
structure Entry where
  id : Nat
  off : Nat
  len : Nat
  rl : Nat
deriving Repr, DecidableEq

def covers (e : Entry) (t : Nat) : Prop := e.id ≤ t ∧ t < e.id + e.rl

/-- the Go loop `for y := id; y < id+rl; y++`, `n` = iterations left -/
def splitLoop (S : Nat → Bool) (off len : Nat) : Nat → Nat → Nat → Nat → List Entry
  | 0, _, curId, curRl => if 0 < curRl then [⟨curId, off, len, curRl⟩] else []
  | n+1, y, curId, curRl =>
    if S y then
      (if curRl = 0 then splitLoop S off len n (y+1) y 1 else splitLoop S off len n (y+1) curId (curRl+1))
    else
      (if 0 < curRl then ⟨curId, off, len, curRl⟩ :: splitLoop S off len n (y+1) curId 0
       else splitLoop S off len n (y+1) curId 0)

def trim (S : Nat → Bool) (e : Entry) : List Entry := splitLoop S e.off e.len e.rl e.id e.id 0

/-- the precise statement: IDs covered by the output = (pending run) ∪ (remaining IDs that are in S) -/
theorem splitLoop_covers (S : Nat → Bool) (off len : Nat) :
    ∀ n y curId curRl, (0 < curRl → curId + curRl = y) →
      ∀ t, (∃ e ∈ splitLoop S off len n y curId curRl, covers e t) ↔
           ((0 < curRl ∧ curId ≤ t ∧ t < y) ∨ (y ≤ t ∧ t < y + n ∧ S t = true)) := by
  intro n
  induction n with
  | zero =>
    intro y curId curRl hinv t
    simp only [splitLoop]
    by_cases hc : 0 < curRl
    · have := hinv hc
      rw [if_pos hc]
      simp only [List.mem_singleton, exists_eq_left, covers]
      constructor
      · intro h; left; exact ⟨hc, h.1, by omega⟩
      · intro h
        rcases h with h | h
        · exact ⟨h.2.1, by omega⟩
        · omega
    · rw [if_neg hc]
      constructor
      · intro ⟨e, he, _⟩; cases he
      · intro h; rcases h with h | h <;> omega
  | succ n ih =>
    intro y curId curRl hinv t
    simp only [splitLoop]
    by_cases hS : S y = true
    · simp only [hS, if_true]
      by_cases hz : curRl = 0
      · simp only [hz, if_true]
        rw [ih (y+1) y 1 (by intro _; rfl) t]
        constructor
        · intro h
          rcases h with h | h
          · right; have : t = y := by omega
            subst this; exact ⟨Nat.le_refl _, by omega, hS⟩
          · right; exact ⟨by omega, by omega, h.2.2⟩
        · intro h
          rcases h with h | h
          · omega
          · by_cases hty : t = y
            · left; subst hty; exact ⟨by omega, Nat.le_refl _, by omega⟩
            · right; exact ⟨by omega, by omega, h.2.2⟩
      · simp only [hz, if_false]
        have hpos : 0 < curRl := by omega
        have hy := hinv hpos
        rw [ih (y+1) curId (curRl+1) (by intro _; omega) t]
        constructor
        · intro h
          rcases h with h | h
          · by_cases hty : t = y
            · right; subst hty; exact ⟨Nat.le_refl _, by omega, hS⟩
            · left; exact ⟨hpos, h.2.1, by omega⟩
          · right; exact ⟨by omega, by omega, h.2.2⟩
        · intro h
          rcases h with h | h
          · left; exact ⟨by omega, h.2.1, by omega⟩
          · by_cases hty : t = y
            · left; exact ⟨by omega, by omega, by omega⟩
            · right; exact ⟨by omega, by omega, h.2.2⟩
    · have hS' : S y = false := by cases h : S y <;> simp_all
      simp only [hS', Bool.false_eq_true, if_false]
      by_cases hpos : 0 < curRl
      · have hy := hinv hpos
        rw [if_pos hpos]
        simp only [List.mem_cons, exists_eq_or_imp]
        rw [ih (y+1) curId 0 (by intro h; omega) t]
        simp only [covers]
        constructor
        · intro h
          rcases h with h | h
          · left; exact ⟨hpos, h.1, by omega⟩
          · rcases h with h | h
            · omega
            · right; exact ⟨by omega, by omega, h.2.2⟩
        · intro h
          rcases h with h | h
          · left; exact ⟨h.2.1, by omega⟩
          · right; right
            have : t ≠ y := by intro e; subst e; rw [hS'] at h; simp at h
            exact ⟨by omega, by omega, h.2.2⟩
      · rw [if_neg hpos]
        rw [ih (y+1) curId 0 (by intro h; omega) t]
        constructor
        · intro h
          rcases h with h | h
          · omega
          · right; exact ⟨by omega, by omega, h.2.2⟩
        · intro h
          rcases h with h | h
          · omega
          · right
            have : t ≠ y := by intro e; subst e; rw [hS'] at h; simp at h
            exact ⟨by omega, by omega, h.2.2⟩

/-- **trim_spec**: the trimmed pieces cover exactly the IDs of the run that are in S, and keep offset and length -/
theorem trim_spec (S : Nat → Bool) (e : Entry) (t : Nat) :
    (∃ p ∈ trim S e, covers p t) ↔ (covers e t ∧ S t = true) := by
  unfold trim
  rw [splitLoop_covers S e.off e.len e.rl e.id e.id 0 (by intro h; omega) t]
  simp only [covers]
  constructor
  · intro h; rcases h with h | h
    · omega
    · exact ⟨⟨h.1, h.2.1⟩, h.2.2⟩
  · intro h; right; exact ⟨h.1.1, h.1.2, h.2⟩

theorem splitLoop_same_content (S : Nat → Bool) (off len : Nat) :
    ∀ n y curId curRl, ∀ p ∈ splitLoop S off len n y curId curRl, p.off = off ∧ p.len = len := by
  intro n
  induction n with
  | zero =>
    intro y curId curRl p hp
    simp only [splitLoop] at hp
    split at hp
    · simp at hp; subst hp; exact ⟨rfl, rfl⟩
    · cases hp
  | succ n ih =>
    intro y curId curRl p hp
    simp only [splitLoop] at hp
    split at hp
    · split at hp
      · exact ih _ _ _ p hp
      · exact ih _ _ _ p hp
    · split at hp
      · simp only [List.mem_cons] at hp
        rcases hp with rfl | hp
        · exact ⟨rfl, rfl⟩
        · exact ih _ _ _ p hp
      · exact ih _ _ _ p hp
#print axioms trim_spec
