/-! Reduced server model: one object name, versions with unique tags, a cache of
    (key, tag, payload), fetchers, a response queue, clients that read a header and
    then do a conditional tile read.  Goal: `tag_truth` invariant and `single_version`. -/

structure Version where
  tag  : Nat
  data : Nat → Nat          -- abstract content: key ↦ payload

abbrev Store := List Version   -- newest first

def Store.find? (s : Store) (t : Nat) : Option Version := List.find? (fun v => v.tag == t) s

structure Item where          -- a (tag, key, payload) triple held somewhere
  key : Nat
  tag : Nat
  pay : Nat
deriving Repr

inductive Pc
  | wantHeader                       -- waiting for a header item
  | haveHeader (it : Item)           -- has header (tag), about to do conditional read of key k
  | done (resp : Option (Nat × Nat)) -- (tag used, payload) or failure
deriving Repr

structure St where
  store  : Store
  cache  : List Item
  respQ  : List Item
  fetch  : List (Nat × Option Item)   -- key, buffered result after the bucket read
  clients: List (Nat × Pc)            -- requested tile key, pc

def Good (s : Store) (it : Item) : Prop := ∃ v, s.find? it.tag = some v ∧ it.pay = v.data it.key

def Fresh (s : Store) (t : Nat) : Prop := s.find? t = none

inductive Step : St → St → Prop
  | replace (st : St) (v : Version) (h : Fresh st.store v.tag) :
      Step st { st with store := v :: st.store }
  | spawn (st : St) (k : Nat) : Step st { st with fetch := (k, none) :: st.fetch }
  | serveFetch (st : St) (pre post : List (Nat × Option Item)) (k : Nat) (cur : Version) (rest : Store)
      (hs : st.store = cur :: rest) (hf : st.fetch = pre ++ (k, none) :: post) :
      Step st { st with fetch := pre ++ (k, some ⟨k, cur.tag, cur.data k⟩) :: post }
  | push (st : St) (pre post : List (Nat × Option Item)) (k : Nat) (it : Item)
      (hf : st.fetch = pre ++ (k, some it) :: post) :
      Step st { st with fetch := pre ++ post, respQ := st.respQ ++ [it] }
  | loopResp (st : St) (it : Item) (q : List Item) (hq : st.respQ = it :: q) (keep : List Item)
      (hk : ∀ x ∈ keep, x ∈ it :: st.cache) :       -- insert + arbitrary eviction
      Step st { st with respQ := q, cache := keep }
  | deliver (st : St) (pre post : List (Nat × Pc)) (k : Nat) (it : Item) (hi : it ∈ st.cache)
      (hc : st.clients = pre ++ (k, Pc.wantHeader) :: post) :
      Step st { st with clients := pre ++ (k, Pc.haveHeader it) :: post }
  | condReadOk (st : St) (pre post : List (Nat × Pc)) (k : Nat) (it : Item) (cur : Version) (rest : Store)
      (hs : st.store = cur :: rest) (ht : cur.tag = it.tag)
      (hc : st.clients = pre ++ (k, Pc.haveHeader it) :: post) :
      Step st { st with clients := pre ++ (k, Pc.done (some (it.tag, cur.data k))) :: post }
  | condReadStale (st : St) (pre post : List (Nat × Pc)) (k : Nat) (it : Item) (cur : Version) (rest : Store)
      (hs : st.store = cur :: rest) (ht : cur.tag ≠ it.tag)
      (hc : st.clients = pre ++ (k, Pc.haveHeader it) :: post) :
      Step st { st with clients := pre ++ (k, Pc.done none) :: post }

def SInv (st : St) : Prop :=
  (st.store.Pairwise (fun a b => a.tag ≠ b.tag)) ∧
  (∀ it ∈ st.cache, Good st.store it) ∧
  (∀ it ∈ st.respQ, Good st.store it) ∧
  (∀ p ∈ st.fetch, ∀ it, p.2 = some it → Good st.store it) ∧
  (∀ c ∈ st.clients, match c.2 with
      | .haveHeader it => Good st.store it
      | .done (some (t, p)) => ∃ v, st.store.find? t = some v ∧ p = v.data c.1
      | _ => True)

theorem find_cons_of_fresh {s : Store} {v : Version} {t : Nat} {w : Version}
    (hf : Fresh s v.tag) (h : s.find? t = some w) : Store.find? (v :: s) t = some w := by
  unfold Store.find? at *
  unfold Fresh Store.find? at hf
  rw [List.find?_cons]
  by_cases e : v.tag = t
  · subst e; rw [hf] at h; cases h
  · have : (v.tag == t) = false := by simpa using e
    simp [this, h]

theorem good_mono {s : Store} {v : Version} (hf : Fresh s v.tag) {it : Item} (h : Good s it) :
    Good (v :: s) it := by
  obtain ⟨w, hw, hp⟩ := h
  exact ⟨w, find_cons_of_fresh hf hw, hp⟩

theorem find_head (cur : Version) (rest : Store) : Store.find? (cur :: rest) cur.tag = some cur := by
  simp [Store.find?, List.find?_cons]

theorem step_inv {st st' : St} (h : Step st st') (hi : SInv st) : SInv st' := by
  obtain ⟨huniq, hcache, hq, hfetch, hcl⟩ := hi
  cases h with
  | replace v hf =>
    refine ⟨?_, ?_, ?_, ?_, ?_⟩
    · refine List.Pairwise.cons ?_ huniq
      intro a ha e
      unfold Fresh Store.find? at hf
      have := List.find?_eq_none.mp hf a ha
      simp at this; exact this e.symm
    · intro it h; exact good_mono hf (hcache it h)
    · intro it h; exact good_mono hf (hq it h)
    · intro p hp it e; exact good_mono hf (hfetch p hp it e)
    · intro c hc
      have := hcl c hc
      split <;> simp_all
      · exact good_mono hf this
      · obtain ⟨w, hw, hp⟩ := this; exact ⟨w, find_cons_of_fresh hf hw, hp⟩
  | spawn k =>
    refine ⟨huniq, hcache, hq, ?_, hcl⟩
    intro p hp it e
    simp at hp
    rcases hp with rfl | hp
    · simp at e
    · exact hfetch p hp it e
  | serveFetch pre post k cur rest hs hf =>
    refine ⟨huniq, hcache, hq, ?_, hcl⟩
    intro p hp it e
    simp at hp
    rcases hp with hp | rfl | hp
    · exact hfetch p (by rw [hf]; simp [hp]) it e
    · simp at e; subst e
      exact ⟨cur, by rw [hs]; exact find_head cur rest, rfl⟩
    · exact hfetch p (by rw [hf]; simp [hp]) it e
  | push pre post k it hf =>
    refine ⟨huniq, hcache, ?_, ?_, hcl⟩
    · intro x hx
      simp at hx
      rcases hx with hx | rfl
      · exact hq x hx
      · exact hfetch (k, some x) (by rw [hf]; simp) x rfl
    · intro p hp x e
      simp at hp
      exact hfetch p (by rw [hf]; simp; rcases hp with h | h <;> simp [h]) x e
  | loopResp it q hqe keep hk =>
    refine ⟨huniq, ?_, ?_, hfetch, hcl⟩
    · intro x hx
      have := hk x hx
      simp at this
      rcases this with rfl | h
      · exact hq x (by rw [hqe]; simp)
      · exact hcache x h
    · intro x hx; exact hq x (by rw [hqe]; simp [hx])
  | deliver pre post k it hin hc =>
    refine ⟨huniq, hcache, hq, hfetch, ?_⟩
    intro c hcm
    simp at hcm
    rcases hcm with h | rfl | h
    · exact hcl c (by rw [hc]; simp [h])
    · exact hcache it hin
    · exact hcl c (by rw [hc]; simp [h])
  | condReadOk pre post k it cur rest hs ht hc =>
    refine ⟨huniq, hcache, hq, hfetch, ?_⟩
    intro c hcm
    simp at hcm
    rcases hcm with h | rfl | h
    · exact hcl c (by rw [hc]; simp [h])
    · exact ⟨cur, by rw [hs, ← ht]; exact find_head cur rest, rfl⟩
    · exact hcl c (by rw [hc]; simp [h])
  | condReadStale pre post k it cur rest hs ht hc =>
    refine ⟨huniq, hcache, hq, hfetch, ?_⟩
    intro c hcm
    simp at hcm
    rcases hcm with h | rfl | h
    · exact hcl c (by rw [hc]; simp [h])
    · trivial
    · exact hcl c (by rw [hc]; simp [h])

#print axioms step_inv
