structure Entry where
  id : Nat
  off : Nat
  len : Nat
  rl : Nat
deriving Repr, DecidableEq

abbrev Fetch := Nat → Nat → Option (List Entry)

/-- linear-scan spec of findTile's search phase on an ascending list: last entry with id ≤ t -/
def lastLE : List Entry → Nat → Option Entry
  | [], _ => none
  | e :: rest, t => if e.id ≤ t then (match lastLE rest t with | some e' => some e' | none => some e) else none

def accept (e : Entry) (t : Nat) : Option Entry := if e.rl = 0 ∨ t - e.id < e.rl then some e else none

def lookupDir (es : List Entry) (t : Nat) : Option Entry :=
  match lastLE es t with | some e => accept e t | none => none

/-- the directory walk shared by server.go and show.go -/
def walk (fetch : Fetch) : Nat → List Entry → Nat → Option Entry
  | fuel, dir, t =>
    match lookupDir dir t with
    | none => none
    | some e =>
      if 0 < e.rl then some e else
      match fuel with
      | 0 => none
      | f+1 => match fetch e.off e.len with
        | none => none
        | some d => walk fetch f d t

/-- enumeration order = IterateEntries -/
def flattenAux (fetch : Fetch) (sub : List Entry → List Entry) : List Entry → List Entry
  | [] => []
  | e :: es =>
    (if 0 < e.rl then [e] else
      match fetch e.off e.len with
      | none => []
      | some es' => sub es') ++ flattenAux fetch sub es

def flatten (fetch : Fetch) : Nat → List Entry → List Entry
  | 0 => flattenAux fetch (fun _ => [])
  | d+1 => flattenAux fetch (flatten fetch d)

theorem flatten_nil (fetch : Fetch) (d : Nat) : flatten fetch d [] = [] := by
  cases d <;> rfl

theorem flatten_tile (fetch : Fetch) (d : Nat) (e : Entry) (es : List Entry) (h : 0 < e.rl) :
    flatten fetch d (e :: es) = e :: flatten fetch d es := by
  cases d <;> simp [flatten, flattenAux, h]

theorem flatten_ptr (fetch : Fetch) (d : Nat) (e : Entry) (es es' : List Entry) (h : ¬ 0 < e.rl)
    (hf : fetch e.off e.len = some es') :
    flatten fetch (d+1) (e :: es) = flatten fetch d es' ++ flatten fetch (d+1) es := by
  simp [flatten, flattenAux, h, hf]

def covers (e : Entry) (t : Nat) : Bool := decide (e.id ≤ t ∧ t < e.id + e.rl)
def lookupFlat (es : List Entry) (t : Nat) : Option Entry := es.find? (covers · t)

/-- well-formed directory of depth ≤ d responsible for IDs in [lo, hi) -/
inductive WF (fetch : Fetch) : Nat → Nat → Nat → List Entry → Prop
  | nil {d lo hi} : lo ≤ hi → WF fetch d lo hi []
  | tile {d lo hi e es} : lo ≤ e.id → 0 < e.rl → WF fetch d (e.id + e.rl) hi es → WF fetch d lo hi (e :: es)
  | ptr {d lo hi mid e es es'} : lo ≤ e.id → e.rl = 0 → fetch e.off e.len = some es' →
      (∃ h t, es' = h :: t ∧ h.id = e.id) → WF fetch d e.id mid es' → WF fetch (d+1) mid hi es →
      WF fetch (d+1) lo hi (e :: es)

theorem WF.le {fetch d lo hi es} (h : WF fetch d lo hi es) : lo ≤ hi := by
  induction h with
  | nil h => exact h
  | tile h1 h2 _ ih => omega
  | ptr h1 _ _ _ _ _ ih1 ih2 => omega

/-- every flattened entry's coverage lies in [lo, hi) -/
theorem flat_bounds {fetch d lo hi es} (h : WF fetch d lo hi es) :
    ∀ x ∈ flatten fetch d es, lo ≤ x.id ∧ x.id + x.rl ≤ hi := by
  induction h with
  | nil _ => intro x hx; simp [flatten_nil] at hx
  | @tile d lo hi e es h1 h2 hw ih =>
    intro x hx
    rw [flatten_tile _ _ _ _ h2] at hx; simp only [List.mem_cons] at hx
    rcases hx with rfl | hx
    · exact ⟨h1, hw.le⟩
    · have := ih x hx; omega
  | @ptr d lo hi mid e es es' h1 h2 hf hh hw1 hw2 ih1 ih2 =>
    intro x hx
    have : ¬ (0 < e.rl) := by omega
    rw [flatten_ptr _ _ _ _ _ this hf] at hx; simp only [List.mem_append] at hx
    rcases hx with hx | hx
    · have := ih1 x hx; have := hw2.le; omega
    · have := ih2 x hx; have := hw1.le; omega

theorem lookupFlat_none_of_lt {fetch d lo hi es} (h : WF fetch d lo hi es) (t : Nat) (ht : t < lo) :
    lookupFlat (flatten fetch d es) t = none := by
  unfold lookupFlat
  rw [List.find?_eq_none]
  intro x hx
  have := flat_bounds h x hx
  simp [covers]; omega

theorem lookupFlat_none_of_ge {fetch d lo hi es} (h : WF fetch d lo hi es) (t : Nat) (ht : hi ≤ t) :
    lookupFlat (flatten fetch d es) t = none := by
  unfold lookupFlat
  rw [List.find?_eq_none]
  intro x hx
  have := flat_bounds h x hx
  simp [covers]; omega

theorem lastLE_none_of_lt {fetch d lo hi es} (h : WF fetch d lo hi es) (t : Nat) (ht : t < lo) :
    lastLE es t = none := by
  cases h with
  | nil _ => rfl
  | tile h1 _ _ => simp [lastLE]; omega
  | ptr h1 _ _ _ _ _ => simp [lastLE]; omega

theorem lookupFlat_append (a b : List Entry) (t : Nat) :
    lookupFlat (a ++ b) t = (match lookupFlat a t with | some e => some e | none => lookupFlat b t) := by
  unfold lookupFlat
  rw [List.find?_append]
  cases List.find? (covers · t) a <;> rfl

theorem walk_eq {fetch d lo hi es} (h : WF fetch d lo hi es) :
    ∀ fuel t, d ≤ fuel → walk fetch fuel es t = lookupFlat (flatten fetch d es) t := by
  induction h with
  | nil _ => intro fuel t _; simp [walk, lookupDir, lastLE, flatten_nil, lookupFlat]
  | @tile d lo hi e es h1 h2 hw ih =>
    intro fuel t hfu
    have hrest := ih fuel t hfu
    rw [flatten_tile _ _ _ _ h2]
    by_cases hlt : e.id ≤ t
    · by_cases hin : t < e.id + e.rl
      · -- inside e's run
        have hn := lastLE_none_of_lt hw t hin
        have hacc : accept e t = some e := by unfold accept; rw [if_pos]; right; omega
        unfold walk
        simp only [lookupDir, lastLE, hlt, if_true, hn, hacc, h2]
        simp [lookupFlat, covers, hlt, hin]
      · -- beyond e's run: behaves like the rest
        have hflat : lookupFlat (e :: flatten fetch d es) t = lookupFlat (flatten fetch d es) t := by
          simp [lookupFlat, covers, List.find?_cons, hin]
        rw [hflat, ← hrest]
        cases hl : lastLE es t with
        | none =>
          have hacc : accept e t = none := by unfold accept; rw [if_neg]; omega
          unfold walk
          simp [lookupDir, lastLE, hlt, hl, hacc]
        | some e' =>
          unfold walk
          simp [lookupDir, lastLE, hlt, hl]
    · -- before e
      have hn : lastLE es t = none := lastLE_none_of_lt hw t (by omega)
      have h1' : lookupFlat (e :: flatten fetch d es) t = none := by
        have := lookupFlat_none_of_lt hw t (by omega)
        simp [lookupFlat, covers, List.find?_cons, hlt] at this ⊢
        exact this
      rw [h1']
      unfold walk
      simp [lookupDir, lastLE, hlt]
  | @ptr d lo hi mid e es es' h1 h2 hf hh hw1 hw2 ih1 ih2 =>
    intro fuel t hfu
    have hnr : ¬ (0 < e.rl) := by omega
    rw [flatten_ptr _ _ _ _ _ hnr hf]
    rw [lookupFlat_append]
    obtain ⟨f, rfl⟩ : ∃ f, fuel = f + 1 := ⟨fuel - 1, by omega⟩
    have hleaf := ih1 f t (by omega)
    have hrest := ih2 (f+1) t hfu
    have hmidle := hw1.le
    by_cases hlt : e.id ≤ t
    · by_cases hin : t < mid
      · -- t belongs to the leaf's interval
        have hn := lastLE_none_of_lt hw2 t hin
        have hacc : accept e t = some e := by unfold accept; rw [if_pos]; left; exact h2
        have hrn := lookupFlat_none_of_lt hw2 t hin
        rw [hrn]
        have : walk fetch (f+1) (e :: es) t = walk fetch f es' t := by
          conv => lhs; unfold walk
          simp only [lookupDir, lastLE, hlt, if_true, hn, hacc, hnr, if_false, hf]
        rw [this, hleaf]
        cases lookupFlat (flatten fetch d es') t <;> rfl
      · -- t ≥ mid: leaf contributes nothing
        have hln := lookupFlat_none_of_ge hw1 t (by omega)
        rw [hln]
        simp only
        rw [← hrest]
        cases hl : lastLE es t with
        | none =>
          -- pointer e is the last ≤ t; descend; leaf has nothing for t; rest has nothing either
          have hacc : accept e t = some e := by unfold accept; rw [if_pos]; left; exact h2
          have hw : walk fetch (f+1) (e :: es) t = walk fetch f es' t := by
            conv => lhs; unfold walk
            simp only [lookupDir, lastLE, hlt, if_true, hl, hacc, hnr, if_false, hf]
          rw [hw, hleaf, hln]
          conv => rhs; unfold walk
          simp [lookupDir, hl]
        | some e' =>
          conv => lhs; unfold walk
          conv => rhs; unfold walk
          simp [lookupDir, lastLE, hlt, hl]
    · have hn : lastLE es t = none := lastLE_none_of_lt hw2 t (by omega)
      have hln := lookupFlat_none_of_lt hw1 t (by omega)
      have hrn := lookupFlat_none_of_lt hw2 t (by omega)
      rw [hln]; simp only; rw [hrn]
      unfold walk
      simp [lookupDir, lastLE, hlt]

/-! ## IterateEntries (with the error propagation of the D1 fix) -/
def iterAux (fetch : Fetch) (sub : List Entry → Option (List Entry)) : List Entry → Option (List Entry)
  | [] => some []
  | e :: es =>
    if 0 < e.rl then
      match iterAux fetch sub es with
      | none => none
      | some r => some (e :: r)
    else
      match fetch e.off e.len with
      | none => none                       -- fetch error is returned
      | some es' =>
        match sub es' with
        | none => none                     -- the recursive call's error is propagated (the fix)
        | some l =>
          match iterAux fetch sub es with
          | none => none
          | some r => some (l ++ r)

/-- depth-bounded; at depth 0 a pointer cannot be followed (the Go recursion would go on; well-formed archives never get there) -/
def iterate (fetch : Fetch) : Nat → List Entry → Option (List Entry)
  | 0 => iterAux fetch (fun _ => none)
  | d+1 => iterAux fetch (iterate fetch d)

theorem iterate_nil (fetch : Fetch) (d : Nat) : iterate fetch d [] = some [] := by
  cases d <;> rfl

/-- `fetch` is the true archive's `fetch0`, except that any call may fail -/
def Faulty (fetch0 fetch : Fetch) : Prop := ∀ off len, fetch off len = fetch0 off len ∨ fetch off len = none

/-- never a silently shortened result: success means the complete enumeration -/
theorem iterate_ok_complete {fetch0 fetch : Fetch} (hf : Faulty fetch0 fetch) {d lo hi es}
    (h : WF fetch0 d lo hi es) : ∀ xs, iterate fetch d es = some xs → xs = flatten fetch0 d es := by
  induction h with
  | nil _ =>
    intro xs hx
    rw [iterate_nil] at hx
    simp at hx; subst hx; rw [flatten_nil]
  | @tile d lo hi e es h1 h2 hw ih =>
    intro xs hx
    rw [flatten_tile _ _ _ _ h2]
    have key : ∀ sub, iterAux fetch sub (e :: es) = (match iterAux fetch sub es with | none => none | some r => some (e :: r)) := by
      intro sub; simp [iterAux, h2]
    cases d with
    | zero =>
      simp only [iterate, key] at hx
      cases hr : iterAux fetch (fun _ => none) es with
      | none => rw [hr] at hx; cases hx
      | some r =>
        rw [hr] at hx; simp at hx; subst hx
        rw [ih r (by simp [iterate, hr])]
    | succ d =>
      simp only [iterate, key] at hx
      cases hr : iterAux fetch (iterate fetch d) es with
      | none => rw [hr] at hx; cases hx
      | some r =>
        rw [hr] at hx; simp at hx; subst hx
        rw [ih r (by simp [iterate, hr])]
  | @ptr d lo hi mid e es es' h1 h2 hfe hh hw1 hw2 ih1 ih2 =>
    intro xs hx
    have hnr : ¬ (0 < e.rl) := by omega
    rw [flatten_ptr _ _ _ _ _ hnr hfe]
    simp only [iterate, iterAux, hnr, if_false] at hx
    rcases hf e.off e.len with hfo | hfo
    · rw [hfo, hfe] at hx
      simp only at hx
      cases hl : iterate fetch d es' with
      | none => rw [hl] at hx; cases hx
      | some l =>
        rw [hl] at hx; simp only at hx
        cases hr : iterAux fetch (iterate fetch d) es with
        | none => rw [hr] at hx; cases hx
        | some r =>
          rw [hr] at hx; simp at hx; subst hx
          rw [ih1 l hl, ih2 r (by simp [iterate, hr])]
    · rw [hfo] at hx; cases hx

/-- and with no fault the enumeration succeeds -/
theorem iterate_ok {fetch : Fetch} {d lo hi es} (h : WF fetch d lo hi es) :
    iterate fetch d es = some (flatten fetch d es) := by
  induction h with
  | nil _ => rw [iterate_nil, flatten_nil]
  | @tile d lo hi e es h1 h2 hw ih =>
    rw [flatten_tile _ _ _ _ h2]
    cases d with
    | zero => simp only [iterate] at ih ⊢; simp [iterAux, h2, ih]
    | succ d => simp only [iterate] at ih ⊢; simp [iterAux, h2, ih]
  | @ptr d lo hi mid e es es' h1 h2 hfe hh hw1 hw2 ih1 ih2 =>
    have hnr : ¬ (0 < e.rl) := by omega
    rw [flatten_ptr _ _ _ _ _ hnr hfe]
    simp only [iterate] at ih2 ⊢
    simp [iterAux, hnr, hfe, ih1, ih2]

/-- the enumeration is strictly ascending, run by run, inside [lo,hi) -/
theorem flatten_sorted {fetch : Fetch} {d lo hi es} (h : WF fetch d lo hi es) :
    (flatten fetch d es).Pairwise (fun a b => a.id + a.rl ≤ b.id) := by
  induction h with
  | nil _ => rw [flatten_nil]; exact List.Pairwise.nil
  | @tile d lo hi e es h1 h2 hw ih =>
    rw [flatten_tile _ _ _ _ h2]
    refine List.Pairwise.cons ?_ ih
    intro b hb
    exact (flat_bounds hw b hb).1
  | @ptr d lo hi mid e es es' h1 h2 hfe hh hw1 hw2 ih1 ih2 =>
    have hnr : ¬ (0 < e.rl) := by omega
    rw [flatten_ptr _ _ _ _ _ hnr hfe, List.pairwise_append]
    refine ⟨ih1, ih2, ?_⟩
    intro a ha b hb
    have := (flat_bounds hw1 a ha).2
    have := (flat_bounds hw2 b hb).1
    omega
#print axioms iterate_ok_complete
#print axioms iterate_ok
#print axioms flatten_sorted
