/-! C09 bookkeeping: the exact map + list + total structure of server.go:203-229 (with the D3 fix:
    eviction stops on an empty list). -/
structure Elem where
  id : Nat
  key : Nat
  size : Nat
deriving Repr, DecidableEq

structure Loop where
  map : List (Nat × Nat)      -- key ↦ element id (Go map: last write wins)
  list : List Elem            -- front = most recent (container/list)
  total : Int

def sumSizes (l : List Elem) : Int := (l.map (fun e => (e.size : Int))).sum

def mapErase (m : List (Nat × Nat)) (k : Nat) : List (Nat × Nat) := m.filter (fun p => p.1 != k)

/-- the eviction loop: `for { if total < limit {break}; ent := Back(); if ent != nil {remove …} else {break} }` -/
def evict (limit : Int) : Nat → Loop → Loop
  | 0, s => s
  | fuel+1, s =>
    if s.total < limit then s else
    match s.list.getLast? with
    | none => s
    | some ent => evict limit fuel { map := mapErase s.map ent.key, list := s.list.dropLast, total := s.total - ent.size }

def cacheInsert (limit : Int) (s : Loop) (e : Elem) : Loop :=
  let s1 : Loop := { map := (e.key, e.id) :: mapErase s.map e.key, list := e :: s.list, total := s.total + e.size }
  evict limit (s1.list.length + 1) s1

def Acct (s : Loop) : Prop := s.total = sumSizes s.list

theorem sumSizes_dropLast (l : List Elem) (ent : Elem) (h : l.getLast? = some ent) :
    sumSizes l.dropLast = sumSizes l - ent.size := by
  induction l with
  | nil => simp at h
  | cons a l ih =>
    cases l with
    | nil => simp at h; subst h; simp [sumSizes]
    | cons b l =>
      have : (b :: l).getLast? = some ent := by simpa [List.getLast?_cons_cons] using h
      have := ih this
      simp only [List.dropLast_cons₂, sumSizes, List.map_cons, List.sum_cons] at this ⊢
      omega

theorem sumSizes_nonneg (l : List Elem) : 0 ≤ sumSizes l := by
  induction l with
  | nil => simp [sumSizes]
  | cons a l ih => simp only [sumSizes, List.map_cons, List.sum_cons] at ih ⊢; omega

theorem evict_acct (limit : Int) (fuel : Nat) (s : Loop) (h : Acct s) : Acct (evict limit fuel s) := by
  induction fuel generalizing s with
  | zero => exact h
  | succ fuel ih =>
    unfold evict
    split
    · exact h
    · split
      · exact h
      · rename_i ent hl
        apply ih
        unfold Acct at *
        simp only
        rw [sumSizes_dropLast _ _ hl, h]

/-- enough fuel ⇒ the loop ended for the right reason: below the limit, or nothing left to evict -/
theorem evict_done (limit : Int) (fuel : Nat) (s : Loop) (hf : s.list.length < fuel) :
    (evict limit fuel s).total < limit ∨ (evict limit fuel s).list = [] := by
  induction fuel generalizing s with
  | zero => omega
  | succ fuel ih =>
    unfold evict
    split
    · left; assumption
    · split
      · rename_i hl
        right
        cases hlist : s.list with
        | nil => rfl
        | cons a l => rw [hlist] at hl; simp at hl
      · rename_i ent hl
        apply ih
        simp only [List.length_dropLast]
        cases hlist : s.list with
        | nil => rw [hlist] at hl; simp at hl
        | cons a l => rw [hlist] at hf; simp at hf ⊢; omega

/-- **size_bounded**: with a positive limit the reported size is below the limit after every insertion -/
theorem cacheInsert_bounded (limit : Int) (hl : 1 ≤ limit) (s : Loop) (e : Elem) (h : Acct s) :
    Acct (cacheInsert limit s e) ∧ (cacheInsert limit s e).total < limit ∧ 0 ≤ (cacheInsert limit s e).total := by
  unfold cacheInsert
  simp only
  have hacct1 : Acct { map := (e.key, e.id) :: mapErase s.map e.key, list := e :: s.list, total := s.total + e.size } := by
    unfold Acct at *; simp only [sumSizes, List.map_cons, List.sum_cons] at *; omega
  have hA := evict_acct limit ((e :: s.list).length + 1) _ hacct1
  refine ⟨hA, ?_, ?_⟩
  · rcases evict_done limit ((e :: s.list).length + 1)
        { map := (e.key, e.id) :: mapErase s.map e.key, list := e :: s.list, total := s.total + e.size } (by simp) with h1 | h1
    · exact h1
    · unfold Acct at hA; rw [hA, h1]; simp [sumSizes]; omega
  · unfold Acct at hA; rw [hA]; exact sumSizes_nonneg _
#print axioms cacheInsert_bounded
