structure Entry where
  id : Nat
  off : Nat
  len : Nat
  rl : Nat
deriving Repr, DecidableEq

/-- Go `findTile`: binary search on [m, n] with signed bounds; we carry `lo = m` and `hi = n+1`. -/
def search (es : Array Entry) (t : Nat) (lo hi : Nat) : Nat ⊕ Entry :=   -- inl n1 : loop ended with n+1 = n1
  if h : lo < hi then
    let k := (hi - 1 + lo) / 2
    if hk : k < es.size then
      if es[k].id < t then search es t (k+1) hi
      else if t < es[k].id then search es t lo k
      else .inr es[k]
    else .inl 0    -- unreachable when hi ≤ size
  else .inl hi
termination_by hi - lo
decreasing_by all_goals omega

def findTile (es : Array Entry) (t : Nat) : Option Entry :=
  match search es t 0 es.size with
  | .inr e => some e
  | .inl n1 =>
    if h : 0 < n1 ∧ n1 - 1 < es.size then
      let e := es[n1 - 1]
      if e.rl = 0 then some e
      else if t - e.id < e.rl then some e else none
    else none

/-- spec: position of the last entry with id ≤ t -/
def StrictAsc (es : Array Entry) : Prop := ∀ i j (hi : i < es.size) (hj : j < es.size), i < j → es[i].id < es[j].id

theorem search_spec (es : Array Entry) (t : Nat) (hs : StrictAsc es) (lo hi : Nat) (hhi : hi ≤ es.size) (hlo : lo ≤ hi)
    (hL : ∀ i (h : i < es.size), i < lo → es[i].id < t)
    (hR : ∀ i (h : i < es.size), hi ≤ i → t < es[i].id) :
    (∃ e, search es t lo hi = .inr e ∧ e ∈ es ∧ e.id = t) ∨
    (∃ n1, search es t lo hi = .inl n1 ∧ n1 ≤ es.size ∧
        (∀ i (h : i < es.size), i < n1 → es[i].id < t) ∧ (∀ i (h : i < es.size), n1 ≤ i → t < es[i].id)) := by
  induction h : hi - lo using Nat.strongRecOn generalizing lo hi with
  | _ d ih =>
    unfold search
    split
    · rename_i hlt
      have hk : (hi - 1 + lo) / 2 < es.size := by omega
      simp only [hk, dite_true]
      have hk1 : lo ≤ (hi - 1 + lo) / 2 := by omega
      have hk2 : (hi - 1 + lo) / 2 < hi := by omega
      split
      · rename_i hcmp
        apply ih (hi - ((hi - 1 + lo) / 2 + 1)) (by omega) _ _ hhi (by omega) _ hR rfl
        intro i hi' hil
        rcases Nat.lt_or_ge i ((hi - 1 + lo) / 2) with h' | h'
        · exact Nat.lt_trans (hs i _ hi' hk h') hcmp
        · have : i = (hi - 1 + lo) / 2 := by omega
          subst this; exact hcmp
      · split
        · rename_i hn hcmp
          apply ih ((hi - 1 + lo) / 2 - lo) (by omega) _ _ (by omega) hk1 hL _ rfl
          intro i hi' hil
          rcases Nat.lt_or_ge ((hi - 1 + lo) / 2) i with h' | h'
          · exact Nat.lt_trans hcmp (hs _ i hk hi' h')
          · have : i = (hi - 1 + lo) / 2 := by omega
            subst this; exact hcmp
        · rename_i hn1 hn2
          left
          exact ⟨_, rfl, Array.getElem_mem hk, by omega⟩
    · right
      have : lo = hi := by omega
      subst this
      exact ⟨lo, rfl, hhi, hL, hR⟩

/-- linear-scan specification -/
def covers (e : Entry) (t : Nat) : Prop := e.id ≤ t ∧ (e.rl = 0 ∨ t - e.id < e.rl)

theorem findTile_sound (es : Array Entry) (t : Nat) (hs : StrictAsc es) (e : Entry)
    (h : findTile es t = some e) :
    e ∈ es ∧ covers e t ∧ ∀ i (hi : i < es.size), es[i].id ≤ t → es[i].id ≤ e.id := by
  unfold findTile at h
  rcases search_spec es t hs 0 es.size (Nat.le_refl _) (Nat.zero_le _) (by intro i _ h; omega) (by intro i h h'; omega) with
    ⟨e', he', hmem, hid⟩ | ⟨n1, hn, hle, hL, hR⟩
  · rw [he'] at h; simp at h; subst h
    refine ⟨hmem, ⟨by omega, ?_⟩, ?_⟩
    · by_cases hz : e'.rl = 0
      · exact Or.inl hz
      · right; omega
    · intro i hi hle; omega
  · rw [hn] at h
    simp only at h
    split at h
    · rename_i hc
      have hlast : es[n1 - 1].id < t := hL (n1 - 1) hc.2 (by omega)
      have hmax : ∀ i (hi : i < es.size), es[i].id ≤ t → es[i].id ≤ es[n1 - 1].id := by
        intro i hi hle
        rcases Nat.lt_or_ge i n1 with h' | h'
        · rcases Nat.lt_or_ge i (n1 - 1) with h'' | h''
          · exact Nat.le_of_lt (hs i (n1 - 1) hi hc.2 h'')
          · have : i = n1 - 1 := by omega
            subst this; exact Nat.le_refl _
        · have := hR i hi h'; omega
      split at h
      · rename_i hz
        simp at h; subst h
        exact ⟨Array.getElem_mem hc.2, ⟨by omega, Or.inl hz⟩, hmax⟩
      · split at h
        · rename_i hz hr
          simp at h; subst h
          exact ⟨Array.getElem_mem hc.2, ⟨by omega, Or.inr hr⟩, hmax⟩
        · simp at h
    · simp at h

theorem findTile_complete (es : Array Entry) (t : Nat) (hs : StrictAsc es)
    (h : findTile es t = none) :
    ∀ i (hi : i < es.size), es[i].id ≤ t → (∃ j, ∃ (hj : j < es.size), es[i].id < es[j].id ∧ es[j].id ≤ t) ∨ ¬ covers es[i] t := by
  unfold findTile at h
  rcases search_spec es t hs 0 es.size (Nat.le_refl _) (Nat.zero_le _) (by intro i _ h; omega) (by intro i h h'; omega) with
    ⟨e', he', hmem, hid⟩ | ⟨n1, hn, hle, hL, hR⟩
  · rw [he'] at h; simp at h
  · rw [hn] at h
    simp only at h
    intro i hi hit
    have hin : i < n1 := by
      rcases Nat.lt_or_ge i n1 with h' | h'
      · exact h'
      · have := hR i hi h'; omega
    have hc : 0 < n1 ∧ n1 - 1 < es.size := by omega
    rw [dif_pos hc] at h
    rcases Nat.lt_or_ge i (n1 - 1) with h' | h'
    · left
      exact ⟨n1 - 1, hc.2, hs i (n1 - 1) hi hc.2 h', Nat.le_of_lt (hL (n1 - 1) hc.2 (by omega))⟩
    · right
      have : i = n1 - 1 := by omega
      subst this
      intro hcov
      split at h
      · simp at h
      · rename_i hz
        split at h
        · simp at h
        · rename_i hr
          rcases hcov.2 with h0 | h1
          · exact hz h0
          · exact hr h1
#print axioms findTile_sound
#print axioms findTile_complete
